# Spike: hand-encoded Mailbox.close deletion path, to test z3 on quantified table obligations
from z3 import *
import time
Str = DeclareSort("Str")
R = IntSort()
def table(name, cols, ver):
    t = {"live": Array(f"{name}.live@{ver}", R, BoolSort())}
    for c, s in cols.items():
        t[c] = Array(f"{name}.{c}@{ver}", R, s)
    return t
COLS = {
 "nameplates": {"id": IntSort(), "app_id": Str, "name": Str, "mailbox_id": Str},
 "nameplate_sides": {"nameplates_id": IntSort(), "claimed": BoolSort(), "side": Str, "added": RealSort()},
 "mailboxes": {"app_id": Str, "id": Str, "updated": RealSort(), "for_nameplate": BoolSort()},
 "mailbox_sides": {"mailbox_id": Str, "opened": BoolSort(), "side": Str, "added": RealSort()},
 "messages": {"app_id": Str, "mailbox_id": Str, "side": Str},
}
def db(ver): return {n: table(n, c, ver) for n, c in COLS.items()}
r, r1, r2 = Ints("r r1 r2")
def delete(t, pred):
    t2 = dict(t); t2["live"] = Lambda([r], And(t["live"][r], Not(pred(r)))); return t2
def update(t, pred, col, val):
    t2 = dict(t); t2[col] = Lambda([r], If(And(t["live"][r], pred(r)), val, t[col][r])); return t2

D0 = db(0)
app, mid, side = Consts("app mid side", Str)
# invariants
def FK(D):
    np, nps, mb, mbs = D["nameplates"], D["nameplate_sides"], D["mailboxes"], D["mailbox_sides"]
    return And(
      ForAll([r], Implies(np["live"][r], Exists([r1], And(mb["live"][r1], mb["id"][r1] == np["mailbox_id"][r])))),
      ForAll([r], Implies(nps["live"][r], Exists([r1], And(np["live"][r1], np["id"][r1] == nps["nameplates_id"][r])))),
      ForAll([r], Implies(mbs["live"][r], Exists([r1], And(mb["live"][r1], mb["id"][r1] == mbs["mailbox_id"][r])))),
    )
def PK(D):
    mb, np = D["mailboxes"], D["nameplates"]
    return And(ForAll([r1, r2], Implies(And(mb["live"][r1], mb["live"][r2], mb["id"][r1] == mb["id"][r2]), r1 == r2)),
               ForAll([r1, r2], Implies(And(np["live"][r1], np["live"][r2], np["id"][r1] == np["id"][r2]), r1 == r2)),
               ForAll([r], Implies(np["live"][r], np["id"][r] == r)))
# path: mailbox row exists (app,mid); side row exists; update opened False; no side open afterwards; deletes
D = D0
mrow, srow = Ints("mrow srow")
pc = [D["mailboxes"]["live"][mrow], D["mailboxes"]["app_id"][mrow] == app, D["mailboxes"]["id"][mrow] == mid,
      D["mailbox_sides"]["live"][srow], D["mailbox_sides"]["mailbox_id"][srow] == mid, D["mailbox_sides"]["side"][srow] == side]
D1 = dict(D); D1["mailbox_sides"] = update(D["mailbox_sides"], lambda x: And(D["mailbox_sides"]["mailbox_id"][x] == mid, D["mailbox_sides"]["side"][x] == side), "opened", BoolVal(False))
ms1 = D1["mailbox_sides"]
pc.append(Not(Exists([r], And(ms1["live"][r], ms1["mailbox_id"][r] == mid, ms1["opened"][r]))))
D2 = dict(D1); D2["nameplate_sides"] = delete(D1["nameplate_sides"], lambda x: D1["nameplate_sides"]["side"][x] == side)
# obligation FK-safe delete of nameplates where mailbox_id = mid : no live nameplate_sides child of deleted nameplates
nps2, np2 = D2["nameplate_sides"], D2["nameplates"]
fk_ok = Not(Exists([r, r1], And(np2["live"][r], np2["mailbox_id"][r] == mid, nps2["live"][r1], nps2["nameplates_id"][r1] == np2["id"][r])))
D3 = dict(D2); D3["nameplates"] = delete(np2, lambda x: np2["mailbox_id"][x] == mid)
D4 = dict(D3); D4["messages"] = delete(D3["messages"], lambda x: D3["messages"]["mailbox_id"][x] == mid)
D5 = dict(D4); D5["mailbox_sides"] = delete(D4["mailbox_sides"], lambda x: D4["mailbox_sides"]["mailbox_id"][x] == mid)
D6 = dict(D5); D6["mailboxes"] = delete(D5["mailboxes"], lambda x: D5["mailboxes"]["id"][x] == mid)

def prove(name, hyps, goal, timeout=20000):
    s = Solver(); s.set("timeout", timeout)
    s.add(*hyps); s.add(Not(goal))
    t=time.time(); res = s.check(); dt=time.time()-t
    print(f"{name}: {'PROVED' if res==unsat else res} {dt:.2f}s")
    return s if res==sat else None

hyps = [FK(D0), PK(D0)] + pc
s = prove("fk_safe_delete_nameplates (expect sat: F3)", hyps, fk_ok)
if s:
    m = s.model()
    print("  side=", m.eval(side), "mid=", m.eval(mid))
# frame on nameplate_sides: rows whose nameplate does not point at mid unchanged
nps0, np0 = D0["nameplate_sides"], D0["nameplates"]
frame = ForAll([r], Implies(And(nps0["live"][r], Not(Exists([r1], And(np0["live"][r1], np0["id"][r1] == nps0["nameplates_id"][r], np0["mailbox_id"][r1] == mid)))),
                            D6["nameplate_sides"]["live"][r]))
s = prove("frame_nameplate_sides (expect sat: F4)", hyps, frame)
# complete deletion + FK preserved afterwards, assuming the fk_ok (statement succeeded)
prove("FK preserved", hyps + [fk_ok], FK(D6))
prove("PK preserved", hyps + [fk_ok], PK(D6))
prove("mailbox gone", hyps, Not(Exists([r], And(D6["mailboxes"]["live"][r], D6["mailboxes"]["id"][r] == mid))))
prove("messages of other mailboxes untouched", hyps, ForAll([r], Implies(And(D0["messages"]["live"][r], D0["messages"]["mailbox_id"][r] != mid), D6["messages"]["live"][r])))
# FK-safe delete of mailboxes: no nameplates / mailbox_sides reference it (in D5)
prove("fk_safe_delete_mailboxes", hyps+[fk_ok], Not(Exists([r, r1], And(D5["mailboxes"]["live"][r], D5["mailboxes"]["id"][r]==mid,
     Or(And(D5["nameplates"]["live"][r1], D5["nameplates"]["mailbox_id"][r1]==mid), And(D5["mailbox_sides"]["live"][r1], D5["mailbox_sides"]["mailbox_id"][r1]==mid))))))

print("---- finite model extraction for F3")
N=5
fin = [ForAll([r], Implies(t["live"][r], And(0 <= r, r < N))) for t in D0.values()]
s = Solver(); s.set("timeout", 20000); s.add(*hyps, *fin, Not(fk_ok))
t0=time.time(); print(s.check(), f"{time.time()-t0:.2f}s"); m = s.model()
names = {}
def sv(v):
    v = m.eval(v, model_completion=True)
    return str(v)
print("args", sv(app), sv(mid), sv(side))
for tn, t in D0.items():
    for i in range(N):
        if is_true(m.eval(t["live"][i], model_completion=True)):
            print(tn, i, {c: sv(t[c][i]) for c in t if c != "live"})
