# Spike S4: idempotence composition for Mailbox.open (insert-if-absent + touch), unbounded, axioms mode
from z3 import *
import time
Str = DeclareSort("Str"); r, r1 = Ints("r r1")
A = lambda n, s: Array(n, IntSort(), s)
eps = Function("eps", ArraySort(IntSort(), BoolSort()), IntSort())   # rowid choice function
ax = [ForAll([r], True)]
def T(ver): return {"live": A(f"ms.live{ver}", BoolSort()), "mid": A(f"ms.mid{ver}", Str), "side": A(f"ms.side{ver}", Str), "opened": A(f"ms.opened{ver}", BoolSort()), "added": A(f"ms.added{ver}", RealSort())}
def M(ver): return {"live": A(f"mb.live{ver}", BoolSort()), "id": A(f"mb.id{ver}", Str), "updated": A(f"mb.updated{ver}", RealSort())}
mid, side = Consts("mid side", Str); when = Real("when")
def open_contract(ms, mb, ms2, mb2):
    """relational contract of Mailbox.open as assumed at a call site"""
    had = Exists([r], And(ms["live"][r], ms["mid"][r] == mid, ms["side"][r] == side))
    rn = eps(ms["live"])
    ins = And(ms2["live"] == Store(ms["live"], rn, True), ms2["mid"] == Store(ms["mid"], rn, mid), ms2["side"] == Store(ms["side"], rn, side),
              ms2["opened"] == Store(ms["opened"], rn, True), ms2["added"] == Store(ms["added"], rn, when))
    same = And(*[ms2[c] == ms[c] for c in ms])
    touch = And(mb2["live"] == mb["live"], mb2["id"] == mb["id"],
                ForAll([r], mb2["updated"][r] == If(And(mb["live"][r], mb["id"][r] == mid), when, mb["updated"][r])))
    return And(If(had, same, ins), touch)
ms0, mb0, ms1, mb1, ms2, mb2 = T(0), M(0), T(1), M(1), T(2), M(2)
hyp = [ForAll([r], True), Not(ms0["live"][eps(ms0["live"])]), Not(ms1["live"][eps(ms1["live"])]),
       open_contract(ms0, mb0, ms1, mb1), open_contract(ms1, mb1, ms2, mb2)]
def eqT(a, b): return ForAll([r], And(a["live"][r] == b["live"][r], Implies(a["live"][r], And(*[a[c][r] == b[c][r] for c in a if c != "live"]))))
def prove(name, goal):
    s = Solver(); s.set("timeout", 20000); s.add(*hyp); s.add(Not(goal)); t = time.time(); res = s.check()
    print(f"{name}: {'PROVED' if res == unsat else res} {time.time()-t:.2f}s")
prove("mailbox_sides equal after duplicate open", eqT(ms2, ms1))
prove("mailboxes equal after duplicate open", eqT(mb2, mb1))
prove("canary: equal to the state before the first open (should not prove)", eqT(ms1, ms0))
open("q4.smt2","w").write("(set-logic ALL)\n" + (lambda s: (s.add(*hyp), s.add(Not(eqT(ms2, ms1))), s.to_smt2())[2])(Solver()))
