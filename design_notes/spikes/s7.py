exec(open("s2.py").read().split("# body")[0])
# definitional-axiom encoding instead of Lambda, for cvc5 export
def delete_ax(t, pred, ver, axs):
    t2 = dict(t); nl = Array(f"live@{ver}", R, BoolSort()); t2["live"] = nl
    axs.append(ForAll([r], nl[r] == And(t["live"][r], Not(pred(r))))); return t2
axs=[]
msg1 = delete_ax(msgc, lambda q: msgc["mailbox_id"][q] == x, "msg1", axs)
ms1 = delete_ax(msc, lambda q: msc["mailbox_id"][q] == x, "ms1", axs)
mb1 = delete_ax(mbc, lambda q: mbc["id"][q] == x, "mb1", axs)
goal = inv(mb1, ms1, msg1, Store(done, x, True))
s = Solver(); s.add(*hyp, *axs, Not(goal))
t=time.time(); print("z3 axioms-mode:", s.check(), f"{time.time()-t:.2f}s")
open("q.smt2","w").write("(set-logic ALL)\n"+s.to_smt2())
