# End-to-end spike: real AST of Mailbox.open -> paths -> VCs (z3). Not framework code.
import ast, re, sys, time
from z3 import *
SRC = "/repo/src/wormhole_mailbox_server/server.py"
tree = ast.parse(open(SRC).read())
def find(cls, fn):
    for n in tree.body:
        if isinstance(n, ast.ClassDef) and n.name == cls:
            for m in n.body:
                if isinstance(m, ast.FunctionDef) and m.name == fn: return m
Str = DeclareSort("Str"); EMPTY = Const("EMPTY", Str)
SCHEMA = {"mailbox_sides": {"mailbox_id": Str, "opened": BoolSort(), "side": Str, "added": RealSort(), "mood": Str},
          "mailboxes": {"app_id": Str, "id": Str, "updated": RealSort(), "for_nameplate": BoolSort()}}
class Table:
    n = 0
    def __init__(s, name, arrays=None):
        s.name = name
        if arrays is None:
            arrays = {"live": Array(f"{name}.live0", IntSort(), BoolSort())}
            for c, so in SCHEMA[name].items(): arrays[c] = Array(f"{name}.{c}0", IntSort(), so)
        s.a = arrays
    def fresh(s, col, so):
        Table.n += 1; return Array(f"{s.name}.{col}#{Table.n}", IntSort(), so)
r = Int("r")
class State:
    def __init__(s, tabs, in_tx, axioms): s.tabs, s.in_tx, s.axioms = tabs, in_tx, axioms
    def copy(s): return State(dict(s.tabs), s.in_tx, list(s.axioms))
def parse_sql(sql):
    sql = " ".join(sql.split())
    m = re.match(r"SELECT \* FROM `(\w+)` WHERE (.*)$", sql)
    if m: return ("select", m.group(1), re.findall(r"`(\w+)`=\?", m.group(2)))
    m = re.match(r"INSERT INTO `(\w+)` \((.*?)\) VALUES\s*\(.*\)$", sql)
    if m: return ("insert", m.group(1), re.findall(r"`(\w+)`", m.group(2)))
    m = re.match(r"UPDATE `(\w+)` SET (.*) WHERE (.*)$", sql)
    if m: return ("update", m.group(1), re.findall(r"`(\w+)`=\?", m.group(2)), re.findall(r"`(\w+)`=\?", m.group(3)))
    raise NotImplementedError(sql)
class Path:
    def __init__(s, env, st, pc): s.env, s.st, s.pc, s.obl = env, st, pc, []
def coerce(v, sort):
    if isinstance(v, bool): return BoolVal(v)
    return v
def ex_expr(e, p):
    if isinstance(e, ast.Constant): return e.value
    if isinstance(e, ast.Name): return p.env[e.id]
    if isinstance(e, ast.Attribute) and isinstance(e.value, ast.Name) and e.value.id == "self": return p.env["self."+e.attr]
    if isinstance(e, ast.Tuple): return tuple(ex_expr(x, p) for x in e.elts)
    if isinstance(e, ast.UnaryOp) and isinstance(e.op, ast.Not):
        v = ex_expr(e.operand, p); return ("not", v)
    if isinstance(e, ast.Call):
        f = e.func
        if isinstance(f, ast.Attribute) and f.attr == "fetchone":
            cur = ex_expr(f.value, p); kind, t, pred = cur
            Table.n += 1; r0 = Int(f"row#{Table.n}")
            T = p.st.tabs[t]
            return ("optrow", t, r0, And(T.a["live"][r0], pred(r0)), Exists([r], And(T.a["live"][r], pred(r))), T)
        if isinstance(f, ast.Attribute) and f.attr == "execute":
            sql = ex_expr(e.args[0], p); params = ex_expr(e.args[1], p); ps = parse_sql(sql); T = p.st.tabs[ps[1]]
            if ps[0] == "select":
                cols = ps[2]; pred = lambda x, T=T, cols=cols, params=params: And(*[T.a[c][x] == params[i] for i, c in enumerate(cols)])
                return ("cursor", ps[1], pred)
            if ps[0] == "insert":
                Table.n += 1; rn = Int(f"new#{Table.n}"); p.pc.append(Not(T.a["live"][rn]))
                na = dict(T.a); na["live"] = Store(T.a["live"], rn, True)
                for i, c in enumerate(ps[2]): na[c] = Store(T.a[c], rn, coerce(params[i], None))
                p.st.tabs[ps[1]] = Table(ps[1], na); p.st.in_tx = True
                if ps[1] == "mailbox_sides":  # FK obligation
                    MB = p.st.tabs["mailboxes"]
                    p.obl.append(("no_exception.IntegrityError.fk", Exists([r], And(MB.a["live"][r], MB.a["id"][r] == params[0]))))
                return None
            if ps[0] == "update":
                setc, wc = ps[2], ps[3]; vals, wv = params[:len(setc)], params[len(setc):]
                na = dict(T.a)
                for i, c in enumerate(setc):
                    nc = T.fresh(c, SCHEMA[ps[1]][c]); na[c] = nc
                    p.st.axioms.append(ForAll([r], nc[r] == If(And(T.a["live"][r], *[T.a[w][r] == wv[j] for j, w in enumerate(wc)]), vals[i], T.a[c][r])))
                p.st.tabs[ps[1]] = Table(ps[1], na); p.st.in_tx = True; return None
        if isinstance(f, ast.Attribute) and f.attr == "commit": p.st.in_tx = False; return None
        if isinstance(f, ast.Attribute) and f.attr == "_touch":   # modular: use contract of _touch
            when = ex_expr(e.args[0], p); T = p.st.tabs["mailboxes"]; nc = T.fresh("updated", RealSort())
            p.st.axioms.append(ForAll([r], nc[r] == If(And(T.a["live"][r], T.a["id"][r] == p.env["self._mailbox_id"]), when, T.a["updated"][r])))
            na = dict(T.a); na["updated"] = nc; p.st.tabs["mailboxes"] = Table("mailboxes", na); p.st.in_tx = True; return None
        if isinstance(f, ast.Name) and f.id in ("isinstance", "type"): return True
    raise NotImplementedError(ast.dump(e)[:200])
def run(stmts, paths):
    for s in stmts:
        nxt = []
        for p in paths:
            if isinstance(s, ast.Assert): nxt.append(p); continue
            if isinstance(s, ast.Expr): 
                if isinstance(s.value, ast.Constant): nxt.append(p); continue
                ex_expr(s.value, p); nxt.append(p); continue
            if isinstance(s, ast.Assign): p.env[s.targets[0].id] = ex_expr(s.value, p); nxt.append(p); continue
            if isinstance(s, ast.If):
                c = ex_expr(s.test, p); neg = False
                if isinstance(c, tuple) and c[0] == "not": neg, c = True, c[1]
                assert c[0] == "optrow"
                some = Path(dict(p.env), p.st.copy(), p.pc + [c[3]]); some.obl = list(p.obl)
                none = Path(dict(p.env), p.st.copy(), p.pc + [Not(c[4])]); none.obl = list(p.obl)
                t, f_ = (none, some) if neg else (some, none)
                nxt += run(s.body, [t]) + run(s.orelse, [f_]); continue
            raise NotImplementedError(ast.dump(s)[:100])
        paths = nxt
    return paths
fn = find("Mailbox", "open")
tabs = {n: Table(n) for n in SCHEMA}
side, mid = Consts("side mid", Str); when = Real("when")
env = {"self": None, "side": side, "when": when, "self._db": "db", "self._mailbox_id": mid}
pre = [Exists([r], And(tabs["mailboxes"].a["live"][r], tabs["mailboxes"].a["id"][r] == mid))]
t0 = time.time()
paths = run(fn.body, [Path(env, State(tabs, False, []), list(pre))])
print("paths:", len(paths), f"symex {time.time()-t0:.3f}s")
MS0, MB0 = tabs["mailbox_sides"], tabs["mailboxes"]
def prove(name, hyps, goal):
    s = Solver(); s.set("timeout", 10000); s.add(*hyps); s.add(Not(goal)); t = time.time(); res = s.check()
    print(f"  {name}: {'PROVED' if res == unsat else res} {time.time()-t:.2f}s")
for i, p in enumerate(paths):
    print("path", i)
    MS1, MB1 = p.st.tabs["mailbox_sides"], p.st.tabs["mailboxes"]; hy = p.pc + p.st.axioms
    for n, g in p.obl: prove(n, hy, g)
    had = Exists([r], And(MS0.a["live"][r], MS0.a["mailbox_id"][r] == mid, MS0.a["side"][r] == side))
    r2 = Int("r2")
    ins = Exists([r2], And(Not(MS0.a["live"][r2]), MS1.a["live"] == Store(MS0.a["live"], r2, True), MS1.a["side"][r2] == side, MS1.a["mailbox_id"][r2] == mid,
                           MS1.a["opened"][r2], MS1.a["added"][r2] == when,
                           ForAll([r], Implies(r != r2, And(MS1.a["side"][r] == MS0.a["side"][r], MS1.a["opened"][r] == MS0.a["opened"][r], MS1.a["mailbox_id"][r] == MS0.a["mailbox_id"][r])))))
    same = And(MS1.a["live"] == MS0.a["live"], MS1.a["opened"] == MS0.a["opened"], MS1.a["side"] == MS0.a["side"])
    prove("ensures.side_row", hy, If(had, same, ins))
    prove("ensures.touch", hy, ForAll([r], MB1.a["updated"][r] == If(And(MB0.a["live"][r], MB0.a["id"][r] == mid), when, MB0.a["updated"][r])))
    prove("ensures.committed", hy, BoolVal(not p.st.in_tx))
    prove("canary(false clause)", hy, MS1.a["live"] == MS0.a["live"]) if i == 0 else None
