# Spike S3: heap invariants H1-H5 imply "listener set of my Mailbox == Sub(a,m)"; broadcast loop over outbox
from z3 import *
import time
Str = DeclareSort("Str"); Ref = IntSort(); c, c2, M2, A2 = Ints("c c2 M2 A2"); s_ = Const("s_", Str)
NONE = IntVal(0)   # OptRef: 0 = None
apps = Array("Server._apps", Str, Ref)                       # app id -> namespace or 0
ns_appid = Array("NS._app_id", Ref, Str); ns_mb = Array("NS._mailboxes", Ref, ArraySort(Str, Ref))
mb_app = Array("MB._app", Ref, Ref); mb_appid = Array("MB._app_id", Ref, Str); mb_mid = Array("MB._mailbox_id", Ref, Str)
mb_lis = Array("MB._listeners", Ref, ArraySort(Ref, BoolSort()))
cn_app = Array("Conn._app", Ref, Ref); cn_mb = Array("Conn._mailbox", Ref, Ref); cn_lis = Array("Conn._listening", Ref, BoolSort()); alive = Array("Conn.alive", Ref, BoolSort())
isconn = Array("isConn", Ref, BoolSort()); ismb = Array("isMailbox", Ref, BoolSort()); isns = Array("isNS", Ref, BoolSort())
H1 = ForAll([s_], Implies(apps[s_] != 0, And(isns[apps[s_]], ns_appid[apps[s_]] == s_)))
H2 = ForAll([A2, s_], Implies(And(isns[A2], ns_mb[A2][s_] != 0), And(ismb[ns_mb[A2][s_]], mb_mid[ns_mb[A2][s_]] == s_, mb_appid[ns_mb[A2][s_]] == ns_appid[A2], mb_app[ns_mb[A2][s_]] == A2)))
H3 = ForAll([c], Implies(And(isconn[c], alive[c], cn_app[c] != 0), And(isns[cn_app[c]], apps[ns_appid[cn_app[c]]] == cn_app[c])))
H4 = ForAll([c], Implies(And(isconn[c], alive[c], cn_mb[c] != 0), And(ismb[cn_mb[c]], cn_app[c] != 0, ns_mb[cn_app[c]][mb_mid[cn_mb[c]]] == cn_mb[c])))
H5 = ForAll([c, M2], Implies(ismb[M2], mb_lis[M2][c] == And(isconn[c], alive[c], cn_lis[c], cn_mb[c] == M2)))
me = Int("me"); M = cn_mb[me]; a = ns_appid[cn_app[me]]; m = mb_mid[M]
pre = [H1, H2, H3, H4, H5, isconn[me], alive[me], cn_app[me] != 0, cn_mb[me] != 0]
def Sub(x): return And(isconn[x], alive[x], cn_lis[x], cn_mb[x] != 0, mb_appid[cn_mb[x]] == a, mb_mid[cn_mb[x]] == m)
def prove(name, hyps, goal):
    s = Solver(); s.set("timeout", 20000); s.add(*hyps); s.add(Not(goal)); t = time.time(); res = s.check()
    print(f"{name}: {'PROVED' if res == unsat else res} {time.time()-t:.2f}s")
prove("listeners(M) == Sub(a,m)", pre, ForAll([c], mb_lis[M][c] == Sub(c)))
prove("canary without H3 (F1 shape) must not prove", [H1, H2, H4, H5] + pre[5:], ForAll([c], mb_lis[M][c] == Sub(c)))
# outbox broadcast loop: invariant preservation
Frame = DeclareSort("Frame"); f = Const("f", Frame)
olen0 = Array("out.len0", Ref, IntSort()); obuf0 = Array("out.buf0", Ref, ArraySort(IntSort(), Frame))
olen = Array("out.len", Ref, IntSort()); obuf = Array("out.buf", Ref, ArraySort(IntSort(), Frame)); done = Array("done", Ref, BoolSort())
L = mb_lis[M]
def inv(ol, ob, dn): return ForAll([c], And(Implies(dn[c], And(L[c], ol[c] == olen0[c] + 1, ob[c] == Store(obuf0[c], olen0[c], f))),
                                            Implies(Not(dn[c]), And(ol[c] == olen0[c], ob[c] == obuf0[c]))))
x = Int("x")
hyp = [inv(olen, obuf, done), L[x], Not(done[x])]
ol1 = Store(olen, x, olen[x] + 1); ob1 = Store(obuf, x, Store(obuf[x], olen[x], f))   # contract of send_f(sm) for handle x
prove("broadcast loop preserve", hyp, inv(ol1, ob1, Store(done, x, True)))
prove("broadcast post", [inv(olen, obuf, done), ForAll([c], done[c] == L[c])],
      ForAll([c], And(olen[c] == olen0[c] + If(L[c], 1, 0), Implies(L[c], obuf[c][olen0[c]] == f), Implies(Not(L[c]), obuf[c] == obuf0[c]))))
