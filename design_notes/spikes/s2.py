# Spike S2: set-iteration invariant for prune's mailbox deletion loop (unbounded)
from z3 import *
import time
Str = DeclareSort("Str"); R = IntSort()
r, r1, r2 = Ints("r r1 r2")
def T(name, cols, ver):
    t = {"live": Array(f"{name}.live@{ver}", R, BoolSort())}
    for c, s in cols.items(): t[c] = Array(f"{name}.{c}@{ver}", R, s)
    return t
MB = {"app_id": Str, "id": Str, "updated": RealSort()}
MS = {"mailbox_id": Str, "side": Str}
MSG = {"app_id": Str, "mailbox_id": Str}
NP = {"id": IntSort(), "app_id": Str, "mailbox_id": Str}
mb0, ms0, msg0, np0 = T("mb", MB, 0), T("ms", MS, 0), T("msg", MSG, 0), T("np", NP, 0)
old = Array("old", Str, BoolSort()); done = Array("done", Str, BoolSort())
app = Const("app", Str); x = Const("x", Str)
# loop-entry facts
pre = [
  ForAll([r1, r2], Implies(And(mb0["live"][r1], mb0["live"][r2], mb0["id"][r1] == mb0["id"][r2]), r1 == r2)),  # PK
  ForAll([r], Implies(ms0["live"][r], Exists([r1], And(mb0["live"][r1], mb0["id"][r1] == ms0["mailbox_id"][r])))),  # FK
  ForAll([r], Implies(np0["live"][r], Exists([r1], And(mb0["live"][r1], mb0["id"][r1] == np0["mailbox_id"][r])))),
  ForAll([r], Implies(np0["live"][r], Not(old[np0["mailbox_id"][r]]))),   # old nameplates already gone
]
s_ = Const("s_", Str)
pre.append(ForAll([s_], Implies(old[s_], Exists([r1], And(mb0["live"][r1], mb0["id"][r1] == s_, mb0["app_id"][r1] == app)))))
def inv(mb, ms, msg, dn):
    return And(
      ForAll([r], mb["live"][r] == And(mb0["live"][r], Not(dn[mb0["id"][r]]))),
      ForAll([r], ms["live"][r] == And(ms0["live"][r], Not(dn[ms0["mailbox_id"][r]]))),
      ForAll([r], msg["live"][r] == And(msg0["live"][r], Not(dn[msg0["mailbox_id"][r]]))),
      ForAll([s_], Implies(dn[s_], old[s_])),
      mb["id"] == mb0["id"], mb["app_id"] == mb0["app_id"], ms["mailbox_id"] == ms0["mailbox_id"], msg["mailbox_id"] == msg0["mailbox_id"])
mbc, msc, msgc = T("mb", MB, "c"), T("ms", MS, "c"), T("msg", MSG, "c")
hyp = pre + [inv(mbc, msc, msgc, done), old[x], Not(done[x])]
def delete(t, pred):
    t2 = dict(t); t2["live"] = Lambda([r], And(t["live"][r], Not(pred(r)))); return t2
def prove(name, hyps, goal, timeout=30000):
    s = Solver(); s.set("timeout", timeout); s.add(*hyps); s.add(Not(goal))
    t=time.time(); res = s.check(); print(f"{name}: {'PROVED' if res==unsat else res} {time.time()-t:.2f}s")
# body
prove("fetchone row exists", hyp, Exists([r], And(mbc["live"][r], mbc["id"][r] == x)))
msg1 = delete(msgc, lambda q: msgc["mailbox_id"][q] == x)
ms1 = delete(msc, lambda q: msc["mailbox_id"][q] == x)
prove("FK-safe delete mailboxes", hyp, Not(Exists([r, r1], And(mbc["live"][r], mbc["id"][r] == x,
      Or(And(np0["live"][r1], np0["mailbox_id"][r1] == x), And(ms1["live"][r1], ms1["mailbox_id"][r1] == x))))))
mb1 = delete(mbc, lambda q: mbc["id"][q] == x)
prove("invariant preserved", hyp, inv(mb1, ms1, msg1, Store(done, x, True)))
# exit: done == old  => postcondition
hyp2 = pre + [inv(mbc, msc, msgc, done), ForAll([s_], done[s_] == old[s_])]
prove("post: old mailboxes gone, others kept", hyp2, ForAll([r], mbc["live"][r] == And(mb0["live"][r], Not(old[mb0["id"][r]]))))
prove("post: FK ms preserved", hyp2, ForAll([r], Implies(msc["live"][r], Exists([r1], And(mbc["live"][r1], mbc["id"][r1] == msc["mailbox_id"][r])))))
prove("canary (must be sat)", hyp2, ForAll([r], Not(mbc["live"][r])))
s = Solver(); s.set("timeout", 30000); s.add(*hyp)
t=time.time(); print("hyp satisfiable?", s.check(), f"{time.time()-t:.2f}s")
s = Solver(); s.set("timeout", 30000); s.add(*hyp); s.add(mbc["live"][7], msc["live"][3], msc["mailbox_id"][3]==x)
t=time.time(); print("hyp + nontrivial satisfiable?", s.check(), f"{time.time()-t:.2f}s")
