# F11 (C14): a duplicated close refreshes mailboxes.updated, the original close does not
from drv import *
from unittest import mock
def c(f, app, side):
    x=Conn(f, side); x.onOpen(); x.cmd(type="bind",appid=app,side=side); return x
def run(dup):
    srv,f=mk()
    with mock.patch("time.time", return_value=0.0):
        a=c(f,"A","s1"); a.cmd(type="open",mailbox="m"); b=c(f,"A","s2"); b.cmd(type="open",mailbox="m")
    with mock.patch("time.time", return_value=100.0):
        print(a.cmd(type="close",mood="happy"))
        if dup:
            a2=c(f,"A","s1"); print("dup:", a2.cmd(type="close",mailbox="m",mood="happy"))
    return dump(srv._db)["mailboxes"]
print("without duplicate:", run(False)); print("with duplicate   :", run(True))
