import sqlite3, os, tempfile, shutil, hashlib
from wormhole_mailbox_server import database as D
d=tempfile.mkdtemp()
def mkv1(p):
    db=sqlite3.connect(p); db.executescript(D.get_schema("usage",1)); db.execute("INSERT INTO version (version) VALUES (1)")
    db.execute("INSERT INTO nameplates VALUES ('a',1,2,3,'happy')"); db.commit(); db.close()
up=[s.strip() for s in D.get_upgrader("usage",2).split(";") if s.strip()]
print(len(up),"statements")
for k in range(len(up)+1):
    p=os.path.join(d,"u%d.sqlite"%k); mkv1(p)
    h0=hashlib.sha256(open(p,"rb").read()).hexdigest()
    db=sqlite3.connect(p, isolation_level=None)
    for s in up[:k]: db.execute(s)
    db.close()
    try:
        db=D.create_or_upgrade_usage_db(p)
        v=db.execute("select version from version").fetchall(); n=db.execute("select count(*) as c from nameplates").fetchone()
        bk=p+"-backup-v1"
        print(k,"OK",v,n, "backup==orig:", os.path.exists(bk) and hashlib.sha256(open(bk,"rb").read()).hexdigest()==h0)
    except Exception as e:
        print(k,"FAIL",type(e).__name__,e)
shutil.rmtree(d)
