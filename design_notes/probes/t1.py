from drv import *
# C02 split-brain after prune drops AppNamespace with a bound connection
srv,f = mk()
x=Conn(f,"x"); x.onOpen(); x.cmd(type="bind",appid="A",side="s1")
# make rows exist for app A without Mailbox object in A's namespace: emulate restart by inserting via second server on same db
srv._db.execute("INSERT INTO mailboxes (app_id,id,updated,for_nameplate) VALUES ('A','zzz',?,0)",(time.time(),)); srv._db.commit()
srv.prune_all_apps(time.time(), time.time()-660)
print("apps after prune", srv._apps)
print(x.cmd(type="open",mailbox="m1"))
y=Conn(f,"y"); y.onOpen(); y.cmd(type="bind",appid="A",side="s2")
print(y.cmd(type="open",mailbox="m1"))
print("y add ->", y.cmd(type="add",phase="p",body="00"))
print("x frames:", [fr for fr in x.frames if fr["type"]=="message"])
