from drv import *
import sqlite3, shutil, os, tempfile
def run(title, fn):
    print("=====", title)
    try: fn()
    except Exception as e:
        import traceback; traceback.print_exc(limit=3)

def c(f, app, side):
    x=Conn(f, side); x.onOpen(); x.cmd(type="bind",appid=app,side=side); return x

class Crash(Exception): pass
def t_crash():
    d=tempfile.mkdtemp()
    p=os.path.join(d,"c.sqlite"); u=os.path.join(d,"u.sqlite")
    srv,f=mk(p,u)
    a=c(f,"A","s1")
    # crash at 2nd channel commit of claim: snapshot file after first commit
    real=srv._db
    class W:
        def __init__(s): s.n=0
        def __getattr__(s,k): return getattr(real,k)
        def commit(s):
            real.commit(); s.n+=1
            if s.n==1: shutil.copy(p,p+".crash"); 
    w=W(); srv._db=w; a._app._db=w
    print(a.cmd(type="claim",nameplate="1"))
    db2=D.create_or_upgrade_channel_db(p+".crash"); print(dump(db2))
    udb=D.create_or_upgrade_usage_db(os.path.join(d,"u2.sqlite"))
    srv2=S.make_server(db2, usage_db=udb)
    now=time.time()+5000
    try: srv2.prune_all_apps(now, now-660)
    except Exception as e: print("PRUNE EXC", type(e).__name__, e)
    print(dump(db2))
    shutil.rmtree(d)
run("crash after first commit of claim", t_crash)

def t_usage():
    srv,f=mk(":memory:",":memory:")
    a=c(f,"A","s1"); a.cmd(type="claim",nameplate="1"); m=a.frames[-1]["mailbox"]
    a.cmd(type="open",mailbox=m); print(a.cmd(type="close"))
    print("usage np", srv._usage_db.execute("select * from nameplates").fetchall())
    print("usage mb", srv._usage_db.execute("select * from mailboxes").fetchall())
    print(dump(srv._db))
run("close with nameplate still claimed: usage", t_usage)

def t_script():
    d=tempfile.mkdtemp(); p=os.path.join(d,"x.sqlite")
    db=sqlite3.connect(p); print("autocommit attr", getattr(db,"autocommit",None), db.isolation_level)
    db.execute("create table t(a)"); db.execute("insert into t values (1)")
    print("in tx", db.in_transaction)
    db.executescript("create table u(b); insert into u values (2);")
    print("after script in tx", db.in_transaction)
    db2=sqlite3.connect(p); print(db2.execute("select * from u").fetchall(), db2.execute("select * from t").fetchall())
    shutil.rmtree(d)
run("executescript semantics", t_script)
