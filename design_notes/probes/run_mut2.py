import os, shutil, subprocess, sys, tempfile, json
from concurrent.futures import ThreadPoolExecutor
SRC="/repo"
MUTS = {
"M02": ("server.py", '" WHERE `app_id`=? AND `mailbox_id`=?"\n                              " ORDER BY `server_rx` ASC",\n                              (self._app_id, self._mailbox_id))', '" WHERE `mailbox_id`=?"\n                              " ORDER BY `server_rx` ASC",\n                              (self._mailbox_id,))'),
"M10": ("server.py", "        db.execute(\"DELETE FROM `messages` WHERE `mailbox_id`=?\",\n                   (self._mailbox_id,))\n        db.execute(\"DELETE FROM `mailbox_sides`", "        db.execute(\"DELETE FROM `messages` WHERE `app_id`=?\",\n                   (self._app_id,))\n        db.execute(\"DELETE FROM `mailbox_sides`"),
"M12": ("server.py", "        if self._usage_db:\n            self._app._summarize_mailbox_and_store(for_nameplate, side_rows,\n                                                when, pruned=False)\n            self._usage_db.commit()\n        db.commit()\n        # Shut", "        db.commit()\n        # Shut"),
"M14": ("server.py", "        else:\n            npid = row[\"id\"]\n            mailbox_id = row[\"mailbox_id\"]", "        else:\n            npid = row[\"id\"]\n            mailbox_id = generate_mailbox_id()"),
"M16": ("server.py", "        db.commit()\n\n        self.open_mailbox(mailbox_id, side, when) # may raise CrowdedError\n        rows = db.execute(\"SELECT * FROM `nameplate_sides`\"\n                          \" WHERE `nameplates_id`=?\", (npid,)).fetchall()\n        if len(rows) > 2:", "        db.commit()\n\n        try:\n            self.open_mailbox(mailbox_id, side, when) # may raise CrowdedError\n        except CrowdedError:\n            return mailbox_id\n        rows = db.execute(\"SELECT * FROM `nameplate_sides`\"\n                          \" WHERE `nameplates_id`=?\", (npid,)).fetchall()\n        if len(rows) > 3:"),
"M18": ("server.py", "        if claims:\n            return\n        # delete and summarize", "        if len(claims) > 1:\n            return\n        # delete and summarize"),
"M19": ("server.py", "        if self._usage_db:\n            self._summarize_nameplate_and_store(side_rows, when, pruned=False)\n            self._usage_db.commit()\n        db.commit()\n", "        db.commit()\n"),
"M21": ("server.py", "for id_int in range(10**(size-1), 10**size):", "for id_int in range(10**(size-1) - 1, 10**size):"),
"M23": ("server.py", "        mailbox_id = self.claim_nameplate(nameplate_id, side, when)\n        del mailbox_id # ignored, they'll learn it from claim()", "        pass"),
"M25": ("server.py", "        if len(rows) > 2:\n            raise CrowdedError(\"too many sides have opened this mailbox\")", "        if len(rows) > 3:\n            raise CrowdedError(\"too many sides have opened this mailbox\")"),
"M30": ("server.py", "        waiting_time = None\n        if len(times) > 1:\n            waiting_time = times[1] - times[0]\n        total_time = delete_time - times[0]\n        result = \"lonely\"\n        if len(times) == 2:", "        waiting_time = None\n        if len(times) > 1:\n            waiting_time = times[-1] - times[0]\n        total_time = delete_time - times[0]\n        result = \"lonely\"\n        if len(times) == 2:"),
"M31": ("server.py", "        if self._blur_usage:\n            server_rx = self._blur_usage * (server_rx // self._blur_usage)\n        implementation", "        implementation"),
"M33": ("server.py", "if row[\"updated\"] > old:", "if row[\"updated\"] < old:"),
"M36": ("server.py", "            db.execute(\"DELETE FROM `messages` WHERE `mailbox_id`=?\",\n                       (mailbox_id,))\n            db.execute(\"DELETE FROM `mailbox_sides` WHERE `mailbox_id`=?\",\n                       (mailbox_id,))\n            db.execute(\"DELETE FROM `mailboxes`", "            db.execute(\"DELETE FROM `mailbox_sides` WHERE `mailbox_id`=?\",\n                       (mailbox_id,))\n            db.execute(\"DELETE FROM `mailboxes`"),
"M37": ("server.py", "            if self._usage_db:\n                self._summarize_nameplate_and_store(side_rows, now, pruned=True)\n            modified = True", "            modified = True"),
"M39": ("server.py", "        for row in self._db.execute(\"SELECT DISTINCT `app_id`\"\n                                    \" FROM `messages`\").fetchall():\n            apps.add(row[\"app_id\"])\n", ""),
"M40": ("server.py", "            in_use = app.prune(now, old)", "            in_use = app.prune(old, now)"),
"M44": ("server_websocket.py", "self.send(\"error\", error=e._explain, orig=msg)", "self.send(\"error\", error=e._explain)"),
"M46": ("server_websocket.py", "        try:\n            self._mailbox = self._app.open_mailbox(mailbox_id, self._side,\n                                                   server_rx)\n        except CrowdedError:\n            raise Error(\"crowded\")\n        def _send(sm):", "        crowded = False\n        try:\n            self._mailbox = self._app.open_mailbox(mailbox_id, self._side,\n                                                   server_rx)\n        except CrowdedError:\n            crowded = True\n            self._mailbox = self._app._mailboxes[mailbox_id]\n        def _send(sm):"),
"M47": ("server_websocket.py", "        if not self._mailbox:\n            try:\n                self._mailbox = self._app.open_mailbox(mailbox_id, self._side,\n                                                       server_rx)\n            except CrowdedError:\n                raise Error(\"crowded\")\n        if self._listening:", "        if not self._mailbox:\n            self._did_close = True\n            self.send(\"closed\")\n            return\n        if self._listening:"),
"M50": ("server_websocket.py", "nameplates = [{\"id\": nid} for nid in nameplate_ids]", "nameplates = [{\"id\": nid} for nid in nameplate_ids if nid.isdigit()]"),
"M52": ("server_tap.py", "CHANNEL_EXPIRATION_TIME = 11*MINUTE\nEXPIRATION_CHECK_PERIOD = 5*MINUTE", "CHANNEL_EXPIRATION_TIME = 5*MINUTE\nEXPIRATION_CHECK_PERIOD = 11*MINUTE"),
"M54": ("server_tap.py", "                         blur_usage=config[\"blur-usage\"],\n                         usage_db", "                         usage_db"),
"M56": ("database.py", "    _initialize_db_schema(db, name, target_version)\n    db.close()\n    os.rename(temp_dbfile, dbfile)\n    return _open_db_connection(dbfile)", "    os.rename(temp_dbfile, dbfile)\n    _initialize_db_schema(db, name, target_version)\n    db.close()\n    return _open_db_connection(dbfile)"),
"M57": ("database.py", "    elif os.path.exists(dbfile):\n        raise DBAlreadyExists()\n    else:\n        db = _atomic_create_and_initialize_db(dbfile, \"channel\",", "    else:\n        db = _atomic_create_and_initialize_db(dbfile, \"channel\","),
"M62": ("server.py", "        if not already:\n            db.execute(\"INSERT INTO `mailbox_sides`\"\n                       \" (`mailbox_id`, `opened`, `side`, `added`)\"\n                       \" VALUES(?,?,?,?)\",\n                       (self._mailbox_id, True, side, when))", "        if not already:\n            db.execute(\"INSERT INTO `mailbox_sides`\"\n                       \" (`mailbox_id`, `opened`, `side`, `added`)\"\n                       \" VALUES(?,?,?,?)\",\n                       (self._mailbox_id, True, side, when))\n        else:\n            db.execute(\"UPDATE `mailbox_sides` SET `opened`=? WHERE `mailbox_id`=? AND `side`=?\", (True, self._mailbox_id, side))"),
"M63": ("server.py", "    def _touch(self, when):\n        self._db.execute(\"UPDATE `mailboxes` SET `updated`=? WHERE `id`=?\",\n                         (when, self._mailbox_id))", "    def _touch(self, when):\n        pass"),
"M64": ("server.py", "        db.execute(\"DELETE FROM `mailbox_sides` WHERE `mailbox_id`=?\",\n                   (self._mailbox_id,))\n        db.execute(\"DELETE FROM `mailboxes` WHERE `id`=?\", (self._mailbox_id,))", "        db.execute(\"DELETE FROM `mailbox_sides` WHERE `mailbox_id`=?\",\n                   (self._mailbox_id,))\n        db.commit()\n        db.execute(\"DELETE FROM `mailboxes` WHERE `id`=?\", (self._mailbox_id,))"),
}
def run(mid):
    f, old, new = MUTS[mid]
    d = tempfile.mkdtemp(prefix="mut_"+mid+"_", dir="/root/scratch/mut")
    try:
        shutil.copytree(SRC+"/src", d+"/src", ignore=shutil.ignore_patterns("__pycache__"))
        for x in ("setup.cfg","setup.py","tox.ini"):
            if os.path.exists(SRC+"/"+x): shutil.copy(SRC+"/"+x, d)
        p = d+"/src/wormhole_mailbox_server/"+f
        s = open(p).read()
        if s.count(old)!=1: return mid, "PATTERN-%d"%s.count(old)
        open(p,"w").write(s.replace(old,new))
        env=dict(os.environ, PYTHONPATH=d+"/src", PYTHONDONTWRITEBYTECODE="1")
        r = subprocess.run(["/venv/bin/python","-m","pytest","-q","-x","-p","no:cacheprovider","--timeout=300","src/wormhole_mailbox_server/test"], cwd=d, env=env, capture_output=True, text=True)
        tail = r.stdout.strip().splitlines()[-1] if r.stdout.strip() else r.stderr[-200:]
        return mid, ("PASS " if r.returncode==0 else "FAIL ")+tail
    finally:
        shutil.rmtree(d, ignore_errors=True)
with ThreadPoolExecutor(8) as ex:
    for mid, res in ex.map(run, sorted(MUTS)): print(mid, res, flush=True)
