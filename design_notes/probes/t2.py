from drv import *
import traceback
def run(title, fn):
    print("=====", title)
    try: fn()
    except Exception as e:
        print("EXC", type(e).__name__, e)

def c(f, app, side):
    x=Conn(f, side); x.onOpen(); x.cmd(type="bind",appid=app,side=side); return x

def t_pk():
    srv,f=mk()
    a=c(f,"A","s1"); print(a.cmd(type="open",mailbox="m"))
    b=c(f,"B","s9"); print(b.cmd(type="open",mailbox="m"))
run("PK cross-app", t_pk)

def t_close_fk():
    srv,f=mk()
    a=c(f,"A","s1"); print(a.cmd(type="claim",nameplate="1")); mid=a.frames[-1]["mailbox"]
    b=c(f,"A","s2"); print(b.cmd(type="claim",nameplate="1"))
    a.cmd(type="open",mailbox=mid); b.cmd(type="open",mailbox=mid)
    print(a.cmd(type="close",mood="happy"))
    print(b.cmd(type="close",mood="happy"))
run("second close while both hold nameplate", t_close_fk)

def t_close_sidekey():
    srv,f=mk()
    a=c(f,"A","s1"); a.cmd(type="claim",nameplate="1"); m1=a.frames[-1]["mailbox"]
    a2=c(f,"A","s1"); a2.cmd(type="claim",nameplate="2")
    bb=c(f,"B","s1"); bb.cmd(type="claim",nameplate="7")
    print(dump(srv._db)["nameplate_sides"])
    a.cmd(type="open",mailbox=m1); print(a.cmd(type="close"))
    d=dump(srv._db); print(d["nameplates"]); print(d["nameplate_sides"])
    l=c(f,"A","s3"); print(l.cmd(type="list"))
run("close deletes nameplate_sides by side only", t_close_sidekey)

def t_stale():
    srv,f=mk()
    c1=c(f,"A","s1"); c1.cmd(type="open",mailbox="m")
    c2=c(f,"A","s1"); c2.cmd(type="open",mailbox="m")
    print(c1.cmd(type="close"))
    print(c2.cmd(type="add",phase="p",body="ff"))
    print(dump(srv._db))
    now=time.time()+10000
    srv.prune_all_apps(now, now-660); srv.prune_all_apps(now+300, now+300-660)
    print(dump(srv._db))
    c3=c(f,"A","s5"); print(c3.cmd(type="open",mailbox="m"))
run("stale add orphan", t_stale)

def t_crowd():
    srv,f=mk()
    a=c(f,"A","s1"); a.cmd(type="open",mailbox="m")
    b=c(f,"A","s2"); b.cmd(type="open",mailbox="m")
    z=c(f,"A","s3"); print(z.cmd(type="open",mailbox="m"))
    a2=c(f,"A","s1"); print("first side reopen:", a2.cmd(type="open",mailbox="m"))
    print("z add", z.cmd(type="add",phase="p",body="00"))
    print("a add", a.cmd(type="add",phase="p",body="00"))
    print("z frames", [x for x in z.frames if x["type"]=="message"])
run("crowding", t_crowd)
