import os, shutil, subprocess, sys, tempfile, json
from concurrent.futures import ThreadPoolExecutor
SRC="/repo"
MUTS = {
"M01": ("server.py", '" WHERE `app_id`=? AND `mailbox_id`=?"\n                              " ORDER BY `server_rx` ASC",\n                              (self._app_id, self._mailbox_id))', '" WHERE `app_id`=?"\n                              " ORDER BY `server_rx` ASC",\n                              (self._app_id,))'),
"M03": ("server.py", "sm.phase, sm.body, sm.server_rx, sm.msg_id))", "sm.body, sm.phase, sm.server_rx, sm.msg_id))"),
"M04": ("server.py", "        self._add_message(sm)\n        self.broadcast_message(sm)", "        self.broadcast_message(sm)\n        self._add_message(sm)"),
"M05": ("server.py", "        self._touch(sm.server_rx)\n        self._db.commit()", "        self._touch(sm.server_rx)"),
"M06": ("server.py", "        if not already:\n            db.execute(\"INSERT INTO `mailbox_sides`\"", "        if True:\n            db.execute(\"INSERT INTO `mailbox_sides`\""),
"M08": ("server.py", "if any([sr[\"opened\"] for sr in side_rows]):", "if all([sr[\"opened\"] for sr in side_rows]) and side_rows:"),
"M09": ("server.py", "        db.execute(\"DELETE FROM `messages` WHERE `mailbox_id`=?\",\n                   (self._mailbox_id,))\n        db.execute(\"DELETE FROM `mailbox_sides`", "        db.execute(\"DELETE FROM `mailbox_sides`"),
"M11": ("server.py", "            self._usage_db.commit()\n        db.commit()\n        # Shut down", "            self._usage_db.commit()\n        # Shut down"),
"M13": ("server.py", "        row = db.execute(\"SELECT * FROM `nameplates`\"\n                         \" WHERE `app_id`=? AND `name`=?\",\n                         (self._app_id, name)).fetchone()\n        if not row:\n            if self._log_requests:", "        row = db.execute(\"SELECT * FROM `nameplates`\"\n                         \" WHERE `name`=?\",\n                         (name,)).fetchone()\n        if not row:\n            if self._log_requests:"),
"M15": ("server.py", "            if not row[\"claimed\"]:\n                raise ReclaimedError", "            if False:\n                raise ReclaimedError"),
"M17": ("server.py", "\" WHERE `nameplates_id`=? AND `side`=?\",\n                   (False, npid, side))", "\" WHERE `nameplates_id`=?\",\n                   (False, npid))"),
"M20": ("server.py", "        claimed = self._get_nameplate_ids()", "        claimed = self.get_nameplate_ids()"),
"M22": ("server.py", "for size in range(1,4): # stick", "for size in (3,2,1): # stick"),
"M24": ("server.py", "        rows = db.execute(\"SELECT * FROM `mailbox_sides`\"\n                          \" WHERE `mailbox_id`=?\",\n                          (mailbox_id,)).fetchall()\n        if len(rows) > 2:", "        rows = db.execute(\"SELECT * FROM `mailbox_sides`\"\n                          \" WHERE `mailbox_id`=? AND `opened`=?\",\n                          (mailbox_id,True)).fetchall()\n        if len(rows) > 2:"),
"M27": ("server.py", "        if not mailbox_id in self._mailboxes: # ensure", "        if True: # ensure"),
"M28": ("server.py", "        if \"errory\" in moods:\n            result = \"errory\"\n        if \"scary\" in moods:\n            result = \"scary\"", "        if \"scary\" in moods:\n            result = \"scary\"\n        if \"errory\" in moods:\n            result = \"errory\""),
"M29": ("server.py", "        started = times[0]\n        if self._blur_usage:\n            started = self._blur_usage * (started // self._blur_usage)\n        waiting_time = None\n        if len(times) > 1:\n            waiting_time = times[1] - times[0]\n        total_time = delete_time - times[0]\n\n        num_sides", "        started = times[0]\n        waiting_time = None\n        if len(times) > 1:\n            waiting_time = times[1] - times[0]\n        total_time = delete_time - times[0]\n\n        num_sides"),
"M32": ("server.py", "if row[\"updated\"] > old:", "if row[\"updated\"] >= old:"),
"M34": ("server.py", "                mailbox._touch(now)", "                pass"),
"M35": ("server.py", "            db.execute(\"DELETE FROM `messages` WHERE `mailbox_id`=?\",\n                       (mailbox_id,))\n            db.execute(\"DELETE FROM `mailbox_sides` WHERE `mailbox_id`=?\",\n                       (mailbox_id,))\n            db.execute(\"DELETE FROM `mailboxes` WHERE `id`=?\",\n                       (mailbox_id,))", "            db.execute(\"DELETE FROM `messages` WHERE `app_id`=?\",\n                       (self._app_id,))\n            db.execute(\"DELETE FROM `mailbox_sides` WHERE `mailbox_id`=?\",\n                       (mailbox_id,))\n            db.execute(\"DELETE FROM `mailboxes` WHERE `id`=?\",\n                       (mailbox_id,))"),
"M38": ("server.py", "        if modified:\n            db.commit()", "        if modified:\n            pass"),
"M41": ("server.py", "        connections = sum(app.count_listeners()\n                          for app in self._apps.values())", "        connections = len(self._apps)"),
"M42": ("server_websocket.py", "sm = SidedMessage(side=self._side, phase", "sm = SidedMessage(side=msg.get(\"side\", self._side), phase"),
"M43": ("server_websocket.py", "            self.send(\"ack\", id=msg.get(\"id\"))\n\n            mtype = msg[\"type\"]", "            mtype = msg[\"type\"]"),
"M45": ("server_websocket.py", "        if self._did_release:\n            raise Error(\"only one release per connection\")", "        if self._did_release:\n            raise Error(\"only one release per connection\")\n        self._did_release = True"),
"M48": ("server_websocket.py", "        self._did_close = True\n        self._mailbox.close(self._side, msg.get(\"mood\"), server_rx)\n        self._mailbox = None\n        self.send(\"closed\")", "        self._did_close = True\n        self.send(\"closed\")\n        self._mailbox.close(self._side, msg.get(\"mood\"), server_rx)\n        self._mailbox = None"),
"M49": ("server_websocket.py", "        if self._mailbox and self._listening:\n            self._mailbox.remove_listener(self)\n\n\nclass", "        pass\n\n\nclass"),
"M51": ("server_tap.py", "old = now - CHANNEL_EXPIRATION_TIME", "old = now + CHANNEL_EXPIRATION_TIME"),
"M53": ("server_tap.py", "        try:\n            server.prune_all_apps(now, old)\n        except Exception as e:\n            # catch-and-log exceptions during prune, so a single error won't\n            # kill the loop. See #13 for details.\n            log.msg(\"error during prune_all_apps\")\n            log.err(e)", "        server.prune_all_apps(now, old)"),
"M55": ("database.py", "    temp_dbfile = _get_temporary_dbfile(dbfile)\n    db = _open_db_connection(temp_dbfile)\n    _initialize_db_schema(db, name, target_version)\n    db.close()\n    os.rename(temp_dbfile, dbfile)\n    return _open_db_connection(dbfile)", "    db = _open_db_connection(dbfile)\n    _initialize_db_schema(db, name, target_version)\n    return db"),
"M58": ("database.py", "    if not os.path.exists(dbfile):\n        raise DBDoesntExist()\n    return _open_db_connection(dbfile)", "    return _open_db_connection(dbfile)"),
"M59": ("database.py", "    if version < target_version and dbfile != \":memory:\":\n        backup_fn = \"%s-backup-v%d\" % (dbfile, version)\n        log.msg(\" storing backup of v%d db in %s\" % (version, backup_fn))\n        shutil.copy(dbfile, backup_fn)\n", ""),
"M60": ("database.py", "    db.execute(\"PRAGMA foreign_keys = ON\")\n", ""),
}
def run(mid):
    f, old, new = MUTS[mid]
    d = tempfile.mkdtemp(prefix="mut_"+mid+"_", dir="/root/scratch/mut")
    try:
        shutil.copytree(SRC+"/src", d+"/src", ignore=shutil.ignore_patterns("__pycache__"))
        for x in ("setup.cfg","setup.py","tox.ini"):
            if os.path.exists(SRC+"/"+x): shutil.copy(SRC+"/"+x, d)
        p = d+"/src/wormhole_mailbox_server/"+f
        s = open(p).read()
        if s.count(old)!=1: return mid, "PATTERN-%d"%s.count(old)
        open(p,"w").write(s.replace(old,new))
        env=dict(os.environ, PYTHONPATH=d+"/src", PYTHONDONTWRITEBYTECODE="1")
        r = subprocess.run(["/venv/bin/python","-m","pytest","-q","-x","-p","no:cacheprovider","--timeout=300","src/wormhole_mailbox_server/test"], cwd=d, env=env, capture_output=True, text=True)
        tail = r.stdout.strip().splitlines()[-1] if r.stdout.strip() else r.stderr[-200:]
        return mid, ("PASS " if r.returncode==0 else "FAIL ")+tail
    finally:
        shutil.rmtree(d, ignore_errors=True)
with ThreadPoolExecutor(8) as ex:
    for mid, res in ex.map(run, sorted(MUTS)): print(mid, res, flush=True)
