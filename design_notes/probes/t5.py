from drv import *
import random
from unittest import mock
def c(f, app, side):
    x=Conn(f, side); x.onOpen(); x.cmd(type="bind",appid=app,side=side); return x
# F10
srv,f=mk()
app=srv.get_app("A")
for i in range(1,1001): app.claim_nameplate(str(i), "s%d"%i, 0)
a=c(f,"A","zz")
with mock.patch("random.randrange", return_value=1000):
    try: print(a.cmd(type="allocate"))
    except Exception as e: print("F10 EXC", type(e).__name__, e)
# reclaimed leaves clean?
srv,f=mk()
a=c(f,"A","s1"); b=c(f,"A","s2")
a.cmd(type="claim",nameplate="1"); b.cmd(type="claim",nameplate="1")
a2=c(f,"A","s1"); a2.cmd(type="release",nameplate="1")
a3=c(f,"A","s1"); print(a3.cmd(type="claim",nameplate="1"), "in_tx", srv._db.in_transaction)
# F3 leaves tx open
srv,f=mk()
a=c(f,"A","s1"); a.cmd(type="claim",nameplate="1"); mid=a.frames[-1]["mailbox"]
b=c(f,"A","s2"); b.cmd(type="claim",nameplate="1")
a.cmd(type="open",mailbox=mid); b.cmd(type="open",mailbox=mid); a.cmd(type="close")
try: b.cmd(type="close")
except Exception as e: print("F3", type(e).__name__, "in_tx", srv._db.in_transaction)
l=c(f,"A","s3"); print(l.cmd(type="list"), "in_tx", srv._db.in_transaction)
