"""Contracts of server_websocket.WebSocketServer (DESIGN A.4): one event handler per
command; the per-command oracles are taken from the property texts."""
import z3
from pvc.zs import *  # noqa
from pvc.values import *  # noqa
from pvc.contract import contract, Ctx
from pvc.state import is_insert, is_update, is_delete, tbl_eq, comp_eq
from pvc import heap as H
from . import invariants as I
from . import heapinv as HI
from . import appnamespace as AN
from .appnamespace import hp, registry_wf, MB, MS, MSG, NP, NS, UNP, UMB, UCV
from .server import apps_wf, APPS, APP_FIELDS
from .mailbox import is_message_frame, fanout, LS

FV = H.FV
WS = "WebSocketServer."
CONN_COMPS = ["heap." + WS + f for f in (
    "_app", "_side", "_side.isnone", "_did_allocate", "_listening", "_did_claim", "_nameplate_id",
    "_nameplate_id.isnone", "_did_release", "_did_open", "_mailbox", "_mailbox_id", "_mailbox_id.isnone", "_did_close")]


def cf(S, f):
    return S.heap[WS + f]


# ---------------------------------------------------------------- frames and outboxes
def is_frame(fr, ftype, fields):
    """fr has exactly: type, server_tx (a number) and the given key -> FV pairs"""
    keys = ["type", "server_tx"] + sorted(fields)
    cs = [fr[S("type")] == FV.fstr(S(ftype)), FV.is_fnum(fr[S("server_tx")])]
    for k in sorted(fields):
        cs.append(fr[S(k)] == fields[k])
    cs.append(FA([Str], lambda k: Implies(And(*[k != S(x) for x in keys]), fr[k] == FV.absent)))
    return And(*cs)


from .outbox import box_gets, box_same, others_same, prefix_kept    # noqa: E402


def out_gets(S0, S1, cn, preds):
    return box_gets(S0, S1, cn, preds)


def others_silent(S0, S1, me):
    return others_same(S0, S1, me)


def only_me_gets(S0, S1, me, preds):
    return And(out_gets(S0, S1, me, preds), others_silent(S0, S1, me))


def unchanged(c, comps):
    return conj([comp_eq(k, c.pre.get_comp(k), c.post.get_comp(k)) for k in comps])


def opt_fv(isnone, term, wrap):
    return If(isnone, FV.fnone, wrap(term))



def own_outbox_summary(S0, S1, me):
    """what onMessage needs to know about this handler's frames to the acting connection: earlier
    frames stay, and if anything was sent the last frame is a `message`"""
    n0, n1 = S0.out_len[me], S1.out_len[me]
    return And(n1 >= n0, prefix_kept(S0, S1, me),
               Implies(n1 > n0, S1.out_buf[me][n1 - 1][S("type")] == FV.fstr(S("message"))))

# ---------------------------------------------------------------- what every handler may assume / must re-establish
def conn_ok(S, me):
    """per-connection invariant of the acting connection between commands"""
    app = cf(S, "_app")[me]
    M = cf(S, "_mailbox")[me]
    return And(
        cf(S, "alive")[me],
        Implies(app != 0, And(S.alloc[app], Not(cf(S, "_side.isnone")[me]),
                              hp(S, APPS)[H.SERVER][hp(S, "AppNamespace._app_id")[app]] == app)),   # H3
        Implies(app == 0, And(M == 0, cf(S, "_side.isnone")[me])),       # unbound: no side either (bind sets both)
        (M != 0) == cf(S, "_listening")[me],
        Implies(M != 0, And(Not(cf(S, "_mailbox_id.isnone")[me]),
                            cf(S, "_mailbox_id")[me] == hp(S, "Mailbox._mailbox_id")[M])))


def event_pre(c):
    S = c.pre
    for n in I.DB_INV:
        yield n, I.NAMED[n](S)
    yield "clean", I.Clean(S)
    yield "apps_wf", apps_wf(S)
    yield "GH4", HI.GH4(S)
    yield "GH5", HI.GH5(S)
    yield "conn_ok", conn_ok(S, c.self_ref)
    yield "outbox_wf", outbox_wf(S)


def outbox_wf(S):
    """ghost outboxes have a non-negative length"""
    return FA([INT], lambda cn: S.out_len[cn] >= 0, pats=lambda cn: [S.out_len[cn]])


def event_post(c, tags=("C17", "C10", "C02")):
    S = c.post
    for n in I.DB_INV:
        yield "preserves." + n, I.NAMED[n](S), list(tags)
    yield "exit.clean", I.Clean(S), ["C09", "C17"]
    yield "preserves.apps_wf", apps_wf(S), list(tags)
    yield "preserves.GH4", HI.GH4(S), list(tags)
    yield "preserves.GH5", HI.GH5(S), list(tags)
    yield "preserves.conn_ok", conn_ok(S, c.self_ref), list(tags)
    yield "preserves.outbox_wf", outbox_wf(S), list(tags)


ALL_DB = [NP, NS, MB, MS, MSG, UNP, UMB, UCV, "us.current", "in_tx.ch", "in_tx.us", "np_next"]
ALL_HEAP = ["heap." + APPS, "alloc"] + APP_FIELDS + AN.MAILBOX_FIELDS + CONN_COMPS


def misuse(con, name, explain, when, comps, tags=("C17",)):
    """an out-of-order / malformed command: raises Error(explain) exactly when `when`,
    having changed nothing (C17)"""
    @con.raises("Error", name, tags=list(tags), fields={"_explain": explain})
    def _(c):
        yield "when", when(c)
        yield "nothing_changed", unchanged(c, comps)


# ---------------------------------------------------------------- send
c = contract("server_websocket.WebSocketServer.send", cls="WebSocketServer",
             params={"mtype": "str", "kwargs": "framemap"}, modifies=["out"], tags=["C17", "C09"])


@c.requires
def _(c):
    yield "clean", I.Clean(c.pre)      # C09: nothing is sent from inside a transaction


@c.ensures
def _(c):
    S0, S1 = c.pre, c.post
    me = c.self_ref
    n = S0.out_len[me]
    kw = c.a.kwargs.t
    # the frame is the keyword arguments plus its type and a send timestamp; nobody else's outbox moves
    fr = S1.out_buf[me][n]
    yield "adds_type_and_tx", And(
        S1.out_len[me] == n + 1, prefix_kept(S0, S1, me), others_same(S0, S1, me),
        fr[S("type")] == FV.fstr(c.a.t("mtype")), FV.is_fnum(fr[S("server_tx")]),
        FA([Str], lambda k: Implies(And(k != S("type"), k != S("server_tx")), fr[k] == kw[k]))), ["C17"]


# ---------------------------------------------------------------- onOpen / onClose
c = contract("server_websocket.WebSocketServer.onOpen", cls="WebSocketServer", params={}, modifies=["out"],
             tags=["C17", "C09"])


@c.requires
def _(c):
    yield "clean", I.Clean(c.pre)


@c.ensures
def _(c):
    W = hp(c.pre, "Server._welcome")[H.SERVER]
    yield "welcome_first", only_me_gets(c.pre, c.post, c.self_ref, [
        lambda fr: is_frame(fr, "welcome", {"welcome": FV.fjson(W)})]), ["C17"]


c = contract("server_websocket.WebSocketServer.onClose", cls="WebSocketServer",
             params={"wasClean": "bool", "code": "json", "reason": "json"},
             modifies=["heap.Mailbox._listeners", "heap." + WS + "alive"], tags=["C02", "C17", "C12"])


@c.requires
def _(c):
    yield "GH4", HI.GH4(c.pre)
    yield "GH5", HI.GH5(c.pre)
    yield "conn_ok", conn_ok(c.pre, c.self_ref)


@c.ensures
def _(c):
    S0, S1 = c.pre, c.post
    me = c.self_ref
    # Sub loses this connection and nothing else: every listener set minus {me}
    ls0, ls1 = LS(S0), LS(S1)
    yield "Sub_loses_self", FA([INT, INT], lambda M, h: Implies(M != 0, ls1[M][h] == And(ls0[M][h], h != me)),
                               pats=lambda M, h: [ls1[M][h]]), ["C02"]
    yield "preserves.GH5", HI.GH5(S1), ["C02", "C12"]
    yield "preserves.GH4", HI.GH4(S1), ["C02", "C12"]


def _onclose_ghost(ex):
    # ghost (A10): after onClose no callback runs on this object
    a = ex.st.heap[WS + "alive"]
    ex.st.heap[WS + "alive"] = Store(a, ex.self_ref, False)


c.ghost_exit = _onclose_ghost


# ---------------------------------------------------------------- ping
PING_MOD = ["out"]
c = contract("server_websocket.WebSocketServer.handle_ping", cls="WebSocketServer", params={"msg": "msg"},
             modifies=PING_MOD, tags=["C17", "C09"])


@c.requires
def _(c):
    yield "clean", I.Clean(c.pre)


@c.ensures
def _(c):
    msg = c.a.msg
    yield "pong_same_value", only_me_gets(c.pre, c.post, c.self_ref, [
        lambda fr: is_frame(fr, "pong", {"pong": FV.fjson(msg.val("ping").t)})]), ["C17"]


misuse(c, "no_ping", "ping requires 'ping'", lambda c: Not(c.a.msg.has("ping")), PING_MOD)


# ---------------------------------------------------------------- bind
BIND_MOD = ["heap." + WS + "_app", "heap." + WS + "_side", "heap." + WS + "_side.isnone",
            "heap." + APPS, "alloc"] + APP_FIELDS + [UCV, "in_tx.us"]
c = contract("server_websocket.WebSocketServer.handle_bind", cls="WebSocketServer",
             params={"msg": "msg", "server_rx": "real"}, modifies=BIND_MOD,
             tags=["C17", "C09", "C16", "C18", "C06", "C02"])
c.requires(event_pre)


def bound(S, me):
    return Or(cf(S, "_app")[me] != 0, And(Not(cf(S, "_side.isnone")[me]), cf(S, "_side")[me] != EMPTY))


misuse(c, "already_bound", "already bound", lambda c: bound(c.pre, c.self_ref), BIND_MOD)
misuse(c, "no_appid", "bind requires 'appid'", lambda c: And(Not(bound(c.pre, c.self_ref)), Not(c.a.msg.has("appid"))), BIND_MOD)
misuse(c, "no_side", "bind requires 'side'", lambda c: And(Not(bound(c.pre, c.self_ref)), c.a.msg.has("appid"),
                                                           Not(c.a.msg.has("side"))), BIND_MOD)


@c.ensures
def _(c):
    S0, S1 = c.pre, c.post
    me = c.self_ref
    msg = c.a.msg
    appid, side = msg.val("appid").t, msg.val("side").t
    app = cf(S1, "_app")[me]
    # the connection is bound to THE namespace registered for its app id (one per app) and to its side
    yield "bound_to_registered", And(app != 0, hp(S1, APPS)[H.SERVER][appid] == app,
                                     hp(S1, "AppNamespace._app_id")[app] == appid,
                                     Not(cf(S1, "_side.isnone")[me]), cf(S1, "_side")[me] == side), ["C02", "C06", "C17"]
    old = hp(S0, APPS)[H.SERVER][appid]
    yield "one_namespace_per_app", Implies(old != 0, app == old), ["C02", "C06", "C11"]
    yield "other_connections_untouched", And(
        FA([INT], lambda cn: Implies(cn != me, And(cf(S1, "_app")[cn] == cf(S0, "_app")[cn],
                                                   cf(S1, "_side")[cn] == cf(S0, "_side")[cn],
                                                   cf(S1, "_side.isnone")[cn] == cf(S0, "_side.isnone")[cn])))), ["C06"]
    # C16: the connect time recorded for the client version is blurred
    from . import specs
    from pvc.state import is_insert_where
    cvh = msg.has("client_version")
    cv = msg.val("client_version").items
    yield "client_version_record", If(
        H.CFG_USAGE,
        is_insert_where(S0.t(UCV), S1.t(UCV), lambda row: And(
            row.app_id == appid, row.side == side, specs.blur_rel(row.connect_time, c.a.t("server_rx")),
            row.implementation == If(cvh, cv[0].t, JNULL), row.version == If(cvh, cv[1].t, JNULL))),
        tbl_eq(S0.t(UCV), S1.t(UCV))), ["C16", "C18"]
    yield from event_post(c)


# ---------------------------------------------------------------- list
c = contract("server_websocket.WebSocketServer.handle_list", cls="WebSocketServer", params={}, modifies=["out"],
             tags=["C17", "C18", "C07", "C09", "C06"])
c.requires(event_pre)


@c.requires
def _(c):
    yield "is_bound", cf(c.pre, "_app")[c.self_ref] != 0


@c.ensures
def _(c):
    S0 = c.pre
    me = c.self_ref
    app = cf(S0, "_app")[me]
    a = hp(S0, "AppNamespace._app_id")[app]
    Uset = AN.U(S0, a)

    def answer(fr):
        v = fr[S("nameplates")]
        n, ids = FV.n(v), FV.ids(v)
        # exactly the live nameplates of the caller's app, each once, when listing is allowed; else empty
        return And(is_frame(fr, "nameplates", {"nameplates": v}), FV.is_fids(v), n >= 0,
                   FA([INT], lambda i: Implies(And(0 <= i, i < n), And(H.CFG_ALLOW_LIST, Uset(ids[i])))),
                   FA([INT, INT], lambda i, j: Implies(And(0 <= i, i < j, j < n), ids[i] != ids[j])),
                   FA([Str], lambda y: Implies(And(H.CFG_ALLOW_LIST, Uset(y)),
                                               EX([INT], lambda i: And(0 <= i, i < n, ids[i] == y)))))
    yield "answer", only_me_gets(c.pre, c.post, me, [answer]), ["C18", "C07", "C06"]


# ---------------------------------------------------------------- allocate
ALLOC_MOD = AN.CLAIM_MOD + ["heap." + WS + "_did_allocate", "out"]
c = contract("server_websocket.WebSocketServer.handle_allocate", cls="WebSocketServer",
             params={"server_rx": "real"}, modifies=ALLOC_MOD, tags=["C04", "C17", "C09", "C10"])
c.requires(event_pre)


@c.requires
def _(c):
    yield "not_from_future", I.not_from_future(c.pre, c.a.t("server_rx"))


@c.requires
def _(c):
    yield "is_bound", cf(c.pre, "_app")[c.self_ref] != 0


misuse(c, "greedy", "you already allocated one, don't be greedy", lambda c: cf(c.pre, "_did_allocate")[c.self_ref], ALLOC_MOD)


def sub_ctx(c, app, args, result=None):
    return Ctx(c.pre, c.post, args, app, "AppNamespace", result=result)


@c.ensures
def _(c):
    S0, S1 = c.pre, c.post
    me = c.self_ref
    app = cf(S0, "_app")[me]
    side = VZ(cf(S0, "_side")[me], "str")
    a = hp(S0, "AppNamespace._app_id")[app]

    def allocated(fr):
        v = fr[S("nameplate")]
        name = FV.s(v)
        k = undec(name)
        n1 = S0.np_next
        c2 = sub_ctx(c, app, {})
        some_short = EX([INT], lambda j: AN.short_free(c2, j))
        return And(is_frame(fr, "allocated", {"nameplate": v}), FV.is_fstr(v),
                   Not(AN.U(S0, a)(name)), name == dec(k), k >= 1,
                   If(some_short, And(1 <= k, k <= 999, FA([INT], lambda j: Implies(AN.short_free(c2, j),
                                                                                    ndigits(k) <= ndigits(j)))),
                      And(1000 <= k, k <= 999999)),
                   # ... and the allocating side already holds it in the committed state the frame is sent from
                   S1.t(NP).live[n1], S1.t(NP).cols["app_id"][n1] == a, S1.t(NP).cols["name"][n1] == name,
                   S1.t(NS).exists(lambda r: And(r.nameplates_id == n1, r.side == side.t, r.claimed)))
    yield "answer_after_commit", only_me_gets(S0, S1, me, [allocated]), ["C04", "C09"]
    yield "once", cf(S1, "_did_allocate")[me], ["C17"]
    yield from event_post(c)


# ---------------------------------------------------------------- claim
CLAIM_H_MOD = AN.CLAIM_MOD + ["heap." + WS + "_did_claim", "heap." + WS + "_nameplate_id",
                              "heap." + WS + "_nameplate_id.isnone", "out"]
c = contract("server_websocket.WebSocketServer.handle_claim", cls="WebSocketServer",
             params={"msg": "msg", "server_rx": "real"}, modifies=CLAIM_H_MOD,
             tags=["C03", "C05", "C07", "C09", "C10", "C14", "C17"])
c.requires(event_pre)


@c.requires
def _(c):
    yield "not_from_future", I.not_from_future(c.pre, c.a.t("server_rx"))


@c.requires
def _(c):
    yield "is_bound", cf(c.pre, "_app")[c.self_ref] != 0


misuse(c, "no_nameplate", "claim requires 'nameplate'", lambda c: Not(c.a.msg.has("nameplate")), CLAIM_H_MOD)
misuse(c, "second_claim", "only one claim per connection",
       lambda c: And(c.a.msg.has("nameplate"), cf(c.pre, "_did_claim")[c.self_ref]), CLAIM_H_MOD)


def claim_args(c):
    me = c.self_ref
    return {"name": c.a.msg.val("nameplate"), "side": VZ(cf(c.pre, "_side")[me], "str"), "when": c.a.server_rx}


def claim_fields(c):
    S1 = c.post
    me = c.self_ref
    return And(cf(S1, "_did_claim")[me], Not(cf(S1, "_nameplate_id.isnone")[me]),
               cf(S1, "_nameplate_id")[me] == c.a.msg.val("nameplate").t)


@c.ensures
def _(c):
    S0, S1 = c.pre, c.post
    me = c.self_ref
    app = cf(S0, "_app")[me]
    a = hp(S0, "AppNamespace._app_id")[app]
    name = c.a.msg.val("nameplate").t

    def claimed(fr):
        v = fr[S("mailbox")]
        mid = FV.s(v)
        sub = sub_ctx(c, app, claim_args(c))
        return And(is_frame(fr, "claimed", {"mailbox": v}), FV.is_fstr(v),
                   # C03: the id told is the mailbox of THE live nameplate (app, name) in the committed state
                   S1.t(NP).exists(lambda r: And(r.app_id == a, r.name == name, r.mailbox_id == mid)),
                   *[t for _, t, _ in AN.claim_post(sub, mid)])
    yield "claimed_frame_carries_result", only_me_gets(S0, S1, me, [claimed]), ["C03", "C07", "C09", "C14"]
    yield "fields", claim_fields(c), ["C17"]
    yield from event_post(c)


@c.raises("Error", "crowded", tags=["C05"], fields={"_explain": "crowded"})
def _(c):
    me = c.self_ref
    app = cf(c.pre, "_app")[me]
    sub = sub_ctx(c, app, claim_args(c))
    yield "when", And(c.a.msg.has("nameplate"), Not(cf(c.pre, "_did_claim")[me]), AN.claim_crowded(sub))
    # the refused side learns nothing: no frame, no subscription (listener sets are not even in the frame)
    yield "learns_nothing", unchanged(c, ["out"])
    for n, t, tags in AN.claim_post(sub, None):
        yield n, t
    yield "fields", claim_fields(c)
    for it in event_post(c):
        yield it[0], it[1]


def reclaimed_when(c):
    S0 = c.pre
    me = c.self_ref
    app = cf(S0, "_app")[me]
    a = hp(S0, "AppNamespace._app_id")[app]
    N = AN.N_pred(S0, a, c.a.msg.val("nameplate").t)
    side = cf(S0, "_side")[me]
    return EX([INT], lambda n: And(N(n), S0.t(NS).exists(lambda r: And(r.nameplates_id == n, r.side == side,
                                                                       Not(r.claimed)))))


@c.raises("Error", "reclaimed", tags=["C07"], fields={"_explain": "reclaimed"})
def _(c):
    me = c.self_ref
    yield "when", And(c.a.msg.has("nameplate"), Not(cf(c.pre, "_did_claim")[me]), reclaimed_when(c))
    yield "no_change", unchanged(c, AN.CLAIM_MOD + ["out"])
    yield "fields", claim_fields(c)
    for it in event_post(c):
        yield it[0], it[1]


# ---------------------------------------------------------------- release
REL_H_MOD = AN.REL_MOD + ["heap." + WS + "_did_release", "out"]
c = contract("server_websocket.WebSocketServer.handle_release", cls="WebSocketServer",
             params={"msg": "msg", "server_rx": "real"}, modifies=REL_H_MOD,
             tags=["C07", "C09", "C10", "C14", "C15", "C16", "C17"])
c.requires(event_pre)


@c.requires
def _(c):
    yield "is_bound", cf(c.pre, "_app")[c.self_ref] != 0


def rel_name_mismatch(c):
    me = c.self_ref
    return And(c.a.msg.has("nameplate"), Not(cf(c.pre, "_nameplate_id.isnone")[me]),
               c.a.msg.val("nameplate").t != cf(c.pre, "_nameplate_id")[me])


def rel_nothing(c):
    me = c.self_ref
    return And(Not(c.a.msg.has("nameplate")), cf(c.pre, "_nameplate_id.isnone")[me])


misuse(c, "second_release", "only one release per connection", lambda c: cf(c.pre, "_did_release")[c.self_ref], REL_H_MOD)
misuse(c, "other_nameplate", "release and claim must use same nameplate",
       lambda c: And(Not(cf(c.pre, "_did_release")[c.self_ref]), rel_name_mismatch(c)), REL_H_MOD)
misuse(c, "nothing_claimed", "release without nameplate must follow claim",
       lambda c: And(Not(cf(c.pre, "_did_release")[c.self_ref]), rel_nothing(c)), REL_H_MOD)


@c.ensures
def _(c):
    S0, S1 = c.pre, c.post
    me = c.self_ref
    app = cf(S0, "_app")[me]
    name = If(c.a.msg.has("nameplate"), c.a.msg.val("nameplate").t, cf(S0, "_nameplate_id")[me])
    sub = sub_ctx(c, app, {"name": VZ(name, "str"), "side": VZ(cf(S0, "_side")[me], "str"), "when": c.a.server_rx})
    # always answered `released`, after the effect of release_nameplate is committed
    yield "released", only_me_gets(S0, S1, me, [lambda fr: is_frame(fr, "released", {})]), ["C07", "C14"]
    for n, t, tags in AN.release_post(sub):
        yield "effect." + n, t, tags
    yield "once", cf(S1, "_did_release")[me], ["C17"]
    yield from event_post(c)


# ---------------------------------------------------------------- open
OPEN_MOD = [MB, MS, "in_tx.ch"] + AN.REGISTRY_COMPS + [
    "heap." + WS + "_mailbox", "heap." + WS + "_mailbox_id", "heap." + WS + "_mailbox_id.isnone",
    "heap." + WS + "_listening", "out"]
c = contract("server_websocket.WebSocketServer.handle_open", cls="WebSocketServer",
             params={"msg": "msg", "server_rx": "real"}, modifies=OPEN_MOD,
             tags=["C01", "C02", "C05", "C06", "C09", "C10", "C12", "C14", "C17"])
c.requires(event_pre)


@c.requires
def _(c):
    yield "not_from_future", I.not_from_future(c.pre, c.a.t("server_rx"))


@c.requires
def _(c):
    S = c.pre
    me = c.self_ref
    yield "is_bound", cf(S, "_app")[me] != 0


misuse(c, "second_open", "only one open per connection", lambda c: cf(c.pre, "_mailbox")[c.self_ref] != 0, OPEN_MOD)
misuse(c, "no_mailbox", "open requires 'mailbox'",
       lambda c: And(cf(c.pre, "_mailbox")[c.self_ref] == 0, Not(c.a.msg.has("mailbox"))), OPEN_MOD)


def open_args(c, mid):
    me = c.self_ref
    return {"mailbox_id": VZ(mid, "str"), "side": VZ(cf(c.pre, "_side")[me], "str"), "when": c.a.server_rx}


@c.ensures
def _(c):
    S0, S1 = c.pre, c.post
    me = c.self_ref
    app = cf(S0, "_app")[me]
    a = hp(S0, "AppNamespace._app_id")[app]
    mid = c.a.msg.val("mailbox").t
    sub = sub_ctx(c, app, open_args(c, mid))
    M = cf(S1, "_mailbox")[me]
    for n, t, tags in AN.open_mailbox_post(sub, M):
        if n in ("one_object_per_id",):
            continue      # stated below with the listener update
        yield "effect." + n, t, tags
    yield "fields", And(M != 0, Not(cf(S1, "_mailbox_id.isnone")[me]), cf(S1, "_mailbox_id")[me] == mid,
                        cf(S1, "_listening")[me]), ["C17", "C02"]
    # C02: this connection, and nobody else, joins the one listener set of (app, mailbox)
    ls1 = LS(S1)
    yield "Sub_gains_self", And(ls1[M][me], FA([INT, INT], lambda X, h: Implies(
        And(X != 0, S0.alloc[X], Not(And(X == M, h == me))), ls1[X][h] == LS(S0)[X][h]), pats=lambda X, h: [ls1[X][h]])), ["C02"]
    # C01: the opener is sent every stored message of exactly (app, mailbox), fields verbatim, oldest first;
    # nobody else is sent anything
    T = S0.t(MSG)
    own = lambda r: And(T.live[r], T.cols["app_id"][r] == a, T.cols["mailbox_id"][r] == mid)
    n0 = S0.out_len[me]
    N = S1.out_len[me] - n0

    def fr_of_row(fr, r):
        return And(fr[S("type")] == FV.fstr(S("message")), fr[S("side")] == FV.fstr(T.cols["side"][r]),
                   fr[S("phase")] == FV.fstr(T.cols["phase"][r]), fr[S("body")] == FV.fstr(T.cols["body"][r]),
                   fr[S("server_rx")] == FV.fnum(T.cols["server_rx"][r]), fr[S("id")] == FV.fjson(T.cols["msg_id"][r]),
                   FV.is_fnum(fr[S("server_tx")]))
    def replay(rid, idx):
        return And(
            N >= 0,
            FA([INT], lambda j: Implies(And(0 <= j, j < N), And(own(rid[j]), idx[rid[j]] == j,
                                                                fr_of_row(S1.out_buf[me][n0 + j], rid[j])))),
            FA([INT], lambda r: Implies(own(r), And(0 <= idx[r], idx[r] < N, rid[idx[r]] == r))),
            FA([INT], lambda i: Implies(And(0 <= i, i < n0), S1.out_buf[me][i] == S0.out_buf[me][i]),
               pats=lambda i: [S1.out_buf[me][i]]))
    g = c.ghost("Mailbox.add_listener")
    if g is not None:
        # proving: the bijection between new frames and stored rows is the enumeration add_listener returned
        yield "replay_exact", replay(g.origin.rid, g.origin.idx), ["C01", "C06"], None, {"assume": False}
    else:
        yield "replay_exact", EX([ArraySort(INT, INT), ArraySort(INT, INT)], replay), ["C01", "C06"], None, {"assume": False}
    yield "others_silent", others_silent(S0, S1, me), ["C01", "C02", "C05"]
    yield "own_outbox", own_outbox_summary(S0, S1, me), ["C17"]
    yield from event_post(c)


@c.raises("IntegrityError", "foreign_id", tags=["C06", "C17"])
def _(c):
    # F2 (open finding): the id is another app's mailbox; the handler dies with the failed INSERT's transaction open
    S0, S1 = c.pre, c.post
    me = c.self_ref
    app = cf(S0, "_app")[me]
    yield "when", And(cf(S0, "_mailbox")[me] == 0, c.a.msg.has("mailbox"),
                      AN.foreign_id(S0, hp(S0, "AppNamespace._app_id")[app], c.a.msg.val("mailbox").t))
    yield "nothing_stored", unchanged(c, [k for k in OPEN_MOD if k.startswith("ch.")] + ["out"])


@c.raises("Error", "crowded", tags=["C05"], fields={"_explain": "crowded"})
def _(c):
    S0, S1 = c.pre, c.post
    me = c.self_ref
    app = cf(S0, "_app")[me]
    mid = c.a.msg.val("mailbox").t
    sub = sub_ctx(c, app, open_args(c, mid))
    yield "when", And(cf(S0, "_mailbox")[me] == 0, c.a.msg.has("mailbox"), Not(AN.foreign_id(S0, hp(S0, "AppNamespace._app_id")[app], mid)),
                      AN.crowded(S1, mid))
    # C05: the refused side is not subscribed and is sent nothing
    yield "crowded_not_subscribed", And(cf(S1, "_mailbox")[me] == 0, Not(cf(S1, "_listening")[me]),
                                        LS(S1) == LS(S0), unchanged(c, ["out"]))
    for n, t, tags in AN.open_mailbox_post(sub, None):
        if n == "one_object_per_id":
            continue
        yield "effect." + n, t
    for it in event_post(c):
        yield it[0], it[1]


@c.loop(0, modifies=["out"], tags=["C01"], over="self._mailbox.add_listener(self, _send, _stop)")
def _(c, L):
    """replay loop: the first k stored messages have been sent to this connection, in order"""
    E, S_ = L.entry, c.post
    me = c.self_ref
    n0 = E.out_len[me]
    lst = L.seq
    yield "count", S_.out_len == Store(E.out_len, me, n0 + L.k)
    yield "others", FA([INT, INT], lambda cn, i: Implies(And(cn != me, 0 <= i, i < E.out_len[cn]),
                                                         S_.out_buf[cn][i] == E.out_buf[cn][i]),
                       pats=lambda cn, i: [S_.out_buf[cn][i]])
    yield "prefix", prefix_kept(E, S_, me)
    yield "sent", FA([INT], lambda j: Implies(And(0 <= j, j < L.k), is_message_frame(S_.out_buf[me][n0 + j], lst.at(j))))
    yield "last_is_message", Implies(L.k > 0, S_.out_buf[me][n0 + L.k - 1][S("type")] == FV.fstr(S("message")))


# ---------------------------------------------------------------- add
ADD_MOD = [MSG, MB, "in_tx.ch", "out"]
c = contract("server_websocket.WebSocketServer.handle_add", cls="WebSocketServer",
             params={"msg": "msg", "server_rx": "real"}, modifies=ADD_MOD,
             tags=["C01", "C02", "C09", "C12", "C17", "C06"])
c.requires(event_pre)


@c.requires
def _(c):
    yield "is_bound", cf(c.pre, "_app")[c.self_ref] != 0


misuse(c, "no_mailbox", "must open mailbox before adding", lambda c: cf(c.pre, "_mailbox")[c.self_ref] == 0, ADD_MOD)
misuse(c, "no_phase", "missing 'phase'", lambda c: And(cf(c.pre, "_mailbox")[c.self_ref] != 0, Not(c.a.msg.has("phase"))), ADD_MOD)
misuse(c, "no_body", "missing 'body'", lambda c: And(cf(c.pre, "_mailbox")[c.self_ref] != 0, c.a.msg.has("phase"),
                                                     Not(c.a.msg.has("body"))), ADD_MOD)


@c.ensures
def _(c):
    S0, S1 = c.pre, c.post
    me = c.self_ref
    msg = c.a.msg
    M = cf(S0, "_mailbox")[me]
    app = cf(S0, "_app")[me]
    a = hp(S0, "AppNamespace._app_id")[app]
    m = hp(S0, "Mailbox._mailbox_id")[M]
    side = cf(S0, "_side")[me]
    mid = If(msg.has("id"), msg.val("id").t, JNULL)
    sm = VNamed("SidedMessage", {"side": VZ(side, "str"), "phase": msg.val("phase"), "body": msg.val("body"),
                                 "server_rx": c.a.server_rx, "msg_id": VZ(mid, "json")})
    # C02/C01: stored with the side this connection is BOUND to, phase/body/id as submitted
    yield "stores_bound_side_and_fields", is_insert(S0.t(MSG), S1.t(MSG), {
        "app_id": a, "mailbox_id": m, "side": side, "phase": msg.val("phase").t, "body": msg.val("body").t,
        "server_rx": c.a.t("server_rx"), "msg_id": mid}), ["C01", "C02", "C06"]
    yield "touch", is_update(S0.t(MB), S1.t(MB), lambda r: r.id == m, {"updated": c.a.t("server_rx")}), ["C12"]
    # C02: exactly the connections subscribed to (app, mailbox) get the message, once; nobody else gets anything
    yield "fanout_is_Sub", fanout(S0, S1, lambda cn: HI.subscribed(S0, cn, M), sm), ["C02", "C06"]
    yield "own_outbox", own_outbox_summary(S0, S1, me), ["C17"]
    yield from event_post(c)


# ---------------------------------------------------------------- close
CLOSE_H_MOD = sorted(set(OPEN_MOD + __import__("contracts.mailbox", fromlist=["CLOSE_MOD"]).CLOSE_MOD
                         + ["heap." + WS + "_did_close"]))
c = contract("server_websocket.WebSocketServer.handle_close", cls="WebSocketServer",
             params={"msg": "msg", "server_rx": "real"}, modifies=CLOSE_H_MOD,
             tags=["C02", "C05", "C08", "C09", "C10", "C14", "C15", "C16", "C17", "C01", "C07", "C06", "C13"])
c.requires(event_pre)


@c.requires
def _(c):
    yield "not_from_future", I.not_from_future(c.pre, c.a.t("server_rx"))


def close_target(c):
    me = c.self_ref
    return If(c.a.msg.has("mailbox"), c.a.msg.val("mailbox").t, cf(c.pre, "_mailbox_id")[me])


def close_mismatch(c):
    me = c.self_ref
    return And(c.a.msg.has("mailbox"), Not(cf(c.pre, "_mailbox_id.isnone")[me]),
               c.a.msg.val("mailbox").t != cf(c.pre, "_mailbox_id")[me])


def close_nothing(c):
    me = c.self_ref
    return And(Not(c.a.msg.has("mailbox")), cf(c.pre, "_mailbox_id.isnone")[me])


def close_valid(c):
    return And(Not(cf(c.pre, "_did_close")[c.self_ref]), Not(close_mismatch(c)), Not(close_nothing(c)))


@c.requires
def _(c):
    S = c.pre
    me = c.self_ref
    yield "is_bound", cf(S, "_app")[me] != 0


misuse(c, "second_close", "only one close per connection", lambda c: cf(c.pre, "_did_close")[c.self_ref], CLOSE_H_MOD)
misuse(c, "other_mailbox", "open and close must use same mailbox",
       lambda c: And(Not(cf(c.pre, "_did_close")[c.self_ref]), close_mismatch(c)), CLOSE_H_MOD)
misuse(c, "nothing_opened", "close without mailbox must follow open",
       lambda c: And(Not(cf(c.pre, "_did_close")[c.self_ref]), close_nothing(c)), CLOSE_H_MOD)


@c.ensures
def _(c):
    S0, S1 = c.pre, c.post
    me = c.self_ref
    # a valid close - first or re-sent, mailbox present or gone - is answered `closed`, once, after the work
    yield "closed", only_me_gets(S0, S1, me, [lambda fr: is_frame(fr, "closed", {})]), ["C08", "C14"]
    yield "fields", And(cf(S1, "_did_close")[me], cf(S1, "_mailbox")[me] == 0, Not(cf(S1, "_listening")[me])), ["C17", "C02"]
    # C08: whatever else happened, this side is no longer an open side of the target mailbox
    tgt, side = close_target(c), cf(S0, "_side")[me]
    yield "my_side_closed", S1.t(MS).none(lambda r: And(r.mailbox_id == tgt, r.side == side, r.opened)), ["C08", "C14"]
    yield from event_post(c)


def close_foreign(c):
    S0 = c.pre
    me = c.self_ref
    app = cf(S0, "_app")[me]
    return And(close_valid(c), cf(S0, "_mailbox")[me] == 0,
               AN.foreign_id(S0, hp(S0, "AppNamespace._app_id")[app], close_target(c)))


@c.raises("IntegrityError", "foreign_id", tags=["C06", "C17"])
def _(c):
    yield "when", close_foreign(c)
    yield "nothing_stored", unchanged(c, [k for k in CLOSE_H_MOD if k.startswith("ch.") or k.startswith("us.")] + ["out"])


@c.raises("Error", "crowded", tags=["C05"], fields={"_explain": "crowded"})
def _(c):
    S0, S1 = c.pre, c.post
    me = c.self_ref
    yield "when", And(close_valid(c), cf(S0, "_mailbox")[me] == 0, Not(close_foreign(c)), AN.crowded(S1, close_target(c)))
    yield "crowded_not_subscribed", And(cf(S1, "_mailbox")[me] == 0, LS(S1) == LS(S0), unchanged(c, ["out"]))
    for it in event_post(c):
        yield it[0], it[1]


# ---------------------------------------------------------------- onMessage (the `cmd` event)
from pvc.contract import REGISTRY as _R     # noqa: E402

EVERYTHING = sorted(set(ALL_DB + ALL_HEAP + ["out"]))
c = contract("server_websocket.WebSocketServer.onMessage", cls="WebSocketServer",
             params={"payload": "msg", "isBinary": "bool"}, modifies=EVERYTHING,
             tags=["C17", "C09", "C10", "C02", "C05"])
c.requires(event_pre)

HANDLERS = {"ping": "handle_ping", "bind": "handle_bind", "list": "handle_list", "allocate": "handle_allocate",
            "claim": "handle_claim", "release": "handle_release", "open": "handle_open", "add": "handle_add",
            "close": "handle_close"}
NEEDS_BIND = [t for t in HANDLERS if t not in ("ping", "bind")]


def err_frame(fr, explain, msg):
    return is_frame(fr, "error", {"error": FV.fstr(S(explain)), "orig": FV.fjson(msg.whole)})


def ack_frame(fr, msg):
    idv = If(msg.has("id"), FV.fjson(msg.val("id").t), FV.fnone)
    return is_frame(fr, "ack", {"id": idv})


def misuse_cases(c):
    """(label, explain, condition on the pre-state and the command) for every malformed or
    out-of-order command the property lists; collected from the handlers' misuse clauses"""
    S0 = c.pre
    me = c.self_ref
    msg = c.a.payload
    ty = msg.val("type").t
    isbound = cf(S0, "_app")[me] != 0
    known = [ty == S(t) for t in HANDLERS]
    yield "must_bind_first", "must bind first", And(msg.has("type"), Or(*[ty == S(t) for t in NEEDS_BIND]), Not(isbound))
    yield "unknown_type", "unknown type", And(msg.has("type"), Not(Or(*known)), isbound)
    yield "unknown_type_unbound", "must bind first", And(msg.has("type"), Not(Or(*known)), Not(isbound))
    sub = Ctx(S0, S0, {"msg": msg, "server_rx": VZ(RealVal(0), "real")}, me, "WebSocketServer")
    for t, h in HANDLERS.items():
        con = _R["server_websocket.WebSocketServer." + h]
        for exc, name, fn, fields, tags, iff in con._raises:
            if exc != "Error" or name in ("crowded", "reclaimed"):
                continue
            when = [it[1] for it in fn(sub) if it[0] == "when"][0]
            gate = msg.has("type") if t in ("ping", "bind") else And(msg.has("type"), isbound)
            yield "%s.%s" % (t, name), fields["_explain"], And(gate, ty == S(t), when)


@c.ensures
def _(c):
    S0, S1 = c.pre, c.post
    me = c.self_ref
    msg = c.a.payload
    n0, n1 = S0.out_len[me], S1.out_len[me]
    buf = S1.out_buf[me]
    rest = [k for k in EVERYTHING if k != "out"]
    yield "no_type", Implies(Not(msg.has("type")), And(
        only_me_gets(S0, S1, me, [lambda fr: err_frame(fr, "missing 'type'", msg)]), unchanged(c, rest))), ["C17"]
    yield "ack_first", Implies(msg.has("type"), And(n1 >= n0 + 1, ack_frame(buf[n0], msg),
                                                    FA([INT], lambda i: Implies(And(0 <= i, i < n0),
                                                                                buf[i] == S0.out_buf[me][i])))), ["C17"]
    for label, explain, cond in misuse_cases(c):
        # answered by ack + exactly one error frame holding the original message; nothing stored changes,
        # nobody else is told anything, the connection's own state is as before (still usable)
        yield "misuse." + label, Implies(cond, And(
            only_me_gets(S0, S1, me, [lambda fr: ack_frame(fr, msg), lambda fr, e=explain: err_frame(fr, e, msg)]),
            unchanged(c, rest))), ["C17"]
    last = buf[n1 - 1]
    harmless = And(msg.has("type"), last[S("type")] == FV.fstr(S("error")),
                   last[S("error")] != FV.fstr(S("crowded")), last[S("error")] != FV.fstr(S("reclaimed")))
    yield "error_means_no_change", Implies(harmless, And(n1 == n0 + 2, last[S("orig")] == FV.fjson(msg.whole),
                                                         others_silent(S0, S1, me), unchanged(c, rest))), ["C17"]
    yield "ping_pong", Implies(And(msg.has("type"), msg.val("type").t == S("ping"), msg.has("ping")),
                               only_me_gets(S0, S1, me, [lambda fr: ack_frame(fr, msg), lambda fr: is_frame(
                                   fr, "pong", {"pong": FV.fjson(msg.val("ping").t)})])), ["C17"]
    yield from event_post(c)


# ---------------------------------------------------------------- __init__ (the `connect` event, with onOpen)
INIT_MOD = CONN_COMPS
c = contract("server_websocket.WebSocketServer.__init__", cls="WebSocketServer", params={}, modifies=INIT_MOD,
             tags=["C17", "C02", "C11"])


@c.ensures
def _(c):
    S1 = c.post
    me = c.self_ref
    # a new connection is unbound, holds nothing and has used none of its once-only commands
    yield "fresh_connection", And(
        cf(S1, "_app")[me] == 0, cf(S1, "_side.isnone")[me], cf(S1, "_mailbox")[me] == 0, cf(S1, "_mailbox_id.isnone")[me],
        cf(S1, "_nameplate_id.isnone")[me], Not(cf(S1, "_listening")[me]), Not(cf(S1, "_did_allocate")[me]),
        Not(cf(S1, "_did_claim")[me]), Not(cf(S1, "_did_release")[me]), Not(cf(S1, "_did_open")[me]),
        Not(cf(S1, "_did_close")[me])), ["C17"]
    # nobody else's connection state moves
    yield "others_untouched", conj([
        FA([INT], lambda cn, k=k: Implies(cn != me, c.post.get_comp(k)[cn] == c.pre.get_comp(k)[cn])) for k in INIT_MOD]), ["C02"]
