"""Contracts of server_websocket.WebSocketServer (DESIGN A.4)."""
import z3
from pvc.zs import *  # noqa
from pvc.values import *  # noqa
from pvc.contract import contract
from pvc import heap as H
from . import invariants as I

# ---------------------------------------------------------------- send
c = contract("server_websocket.WebSocketServer.send", cls="WebSocketServer",
             params={"mtype": "str", "kwargs": "framemap"}, modifies=["out"], tags=["C17", "C09"])


@c.requires
def _(c):
    yield "clean", I.Clean(c.pre)      # C09: nothing is sent from inside a transaction


@c.ensures
def _(c):
    S0, S1 = c.pre, c.post
    me = c.self_ref
    n = S0.out_len[me]
    kw = c.a.kwargs.t
    # the frame is the keyword arguments plus its type and a send timestamp; nobody else's outbox moves
    yield "adds_type_and_tx", And(
        S1.out_len == Store(S0.out_len, me, n + 1),
        EX([REAL], lambda tx: S1.out_buf == Store(S0.out_buf, me, Store(
            S0.out_buf[me], n, Store(Store(kw, S("type"), H.FV.fstr(c.a.t("mtype"))), S("server_tx"), H.FV.fnum(tx)))))), ["C17"]
