"""Contracts of server.Mailbox (DESIGN A.1)."""
from pvc.zs import *  # noqa
from pvc.values import *  # noqa
from pvc.contract import contract
from pvc.state import is_insert, is_update, is_delete, tbl_eq, same_row
from . import invariants as I

MS = "ch.mailbox_sides"
MB = "ch.mailboxes"
MSG = "ch.messages"
NP = "ch.nameplates"
NS = "ch.nameplate_sides"

# ---------------------------------------------------------------- _touch
c = contract("server.Mailbox._touch", cls="Mailbox", params={"when": "real"},
             modifies=[MB, "in_tx.ch"], tags=["C12", "C17"])


@c.ensures
def _(c):
    m = c.sf("_mailbox_id")
    yield "touch", is_update(c.pre.t(MB), c.post.t(MB), lambda r: r.id == m, {"updated": c.a.t("when")}), ["C12"]
    yield "in_tx", c.post.in_tx["ch"], ["C09"]


# ---------------------------------------------------------------- open
c = contract("server.Mailbox.open", cls="Mailbox", params={"side": "str", "when": "real"},
             modifies=[MS, MB, "in_tx.ch"], tags=["C05", "C08", "C09", "C12", "C14", "C17"])


@c.requires
def _(c):
    m = c.sf("_mailbox_id")
    # the INSERT into mailbox_sides has a foreign key on mailboxes(id)
    yield "mailbox_row_exists", c.pre.t(MB).exists(lambda r: r.id == m)


@c.ensures
def _(c):
    S0, S1 = c.pre, c.post
    m, side, when = c.sf("_mailbox_id"), c.a.t("side"), c.a.t("when")
    had = S0.t(MS).exists(lambda r: And(r.mailbox_id == m, r.side == side))
    # an existing side row is left exactly as it is (flags, added, mood); otherwise
    # exactly one row (m, opened, side, added=when, mood NULL) appears
    yield "side_row", If(had, tbl_eq(S0.t(MS), S1.t(MS)),
                         is_insert(S0.t(MS), S1.t(MS), {"mailbox_id": m, "opened": BoolVal(True), "side": side,
                                                        "added": when})), ["C14", "C05", "C08", "C10"]
    yield "touch", is_update(S0.t(MB), S1.t(MB), lambda r: r.id == m, {"updated": when}), ["C12"]
    yield "committed", Not(S1.in_tx["ch"]), ["C09"]


# ---------------------------------------------------------------- get_messages
c = contract("server.Mailbox.get_messages", cls="Mailbox", params={}, result="list:sm@rowlist:ch.messages",
             modifies=[], tags=["C01", "C06", "C17"])


def messages_result_clauses(c, res):
    a, m = c.sf("_app_id"), c.sf("_mailbox_id")
    T = c.pre.t(MSG)
    o = res.origin
    yield "origin_is_messages_table", And(o.tbl.live == T.live, *[o.tbl.cols[k] == T.cols[k] for k in T.cols]), ["C01"]
    # one list element per stored message of exactly this (app, mailbox), no other
    yield "exactly_own_rows", FA([INT], lambda r: Implies(T.live[r], o.pred(r) == And(T.cols["app_id"][r] == a,
                                                                                       T.cols["mailbox_id"][r] == m)),
                                 pats=lambda r: [T.live[r]]), ["C01", "C06"]
    yield "one_per_row", res.n == o.n, ["C01"]

    def verbatim(i):
        sm = res.at(i)
        r = o.rid[i]
        return Implies(And(0 <= i, i < res.n),
                       And(to_term(sm.fields["side"], "str") == T.cols["side"][r],
                           to_term(sm.fields["phase"], "str") == T.cols["phase"][r],
                           to_term(sm.fields["body"], "str") == T.cols["body"][r],
                           to_term(sm.fields["server_rx"], "real") == T.cols["server_rx"][r],
                           to_term(sm.fields["msg_id"], "json") == T.cols["msg_id"][r]))
    yield "fields_verbatim", FA([INT], verbatim), ["C01"]
    yield "ordered", FA([INT, INT], lambda i, j: Implies(And(0 <= i, i < j, j < res.n),
                                                         T.cols["server_rx"][o.rid[i]] <= T.cols["server_rx"][o.rid[j]])), ["C01"]


@c.ensures
def _(c):
    yield from messages_result_clauses(c, c.result)


# ---------------------------------------------------------------- _add_message
c = contract("server.Mailbox._add_message", cls="Mailbox", params={"sm": "sm"},
             modifies=[MSG, MB, "in_tx.ch"], tags=["C01", "C02", "C09", "C12", "C17"])


@c.requires
def _(c):
    a, m = c.sf("_app_id"), c.sf("_mailbox_id")
    # keeps I7 (no message without its mailbox); F5 is the call site that cannot establish this
    yield "mailbox_row_live", c.pre.t(MB).exists(lambda r: And(r.id == m, r.app_id == a))


@c.ensures
def _(c):
    S0, S1 = c.pre, c.post
    a, m = c.sf("_app_id"), c.sf("_mailbox_id")
    sm = c.a.sm.fields
    yield "one_row_verbatim", is_insert(S0.t(MSG), S1.t(MSG), {
        "app_id": a, "mailbox_id": m, "side": to_term(sm["side"], "str"), "phase": to_term(sm["phase"], "str"),
        "body": to_term(sm["body"], "str"), "server_rx": to_term(sm["server_rx"], "real"),
        "msg_id": to_term(sm["msg_id"], "json")}), ["C01", "C02"]
    yield "touch", is_update(S0.t(MB), S1.t(MB), lambda r: r.id == m,
                             {"updated": to_term(sm["server_rx"], "real")}), ["C12"]
    yield "committed", Not(S1.in_tx["ch"]), ["C09"]
