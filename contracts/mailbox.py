"""Contracts of server.Mailbox (DESIGN A.1)."""
from pvc.zs import *  # noqa
from pvc.values import *  # noqa
from pvc.contract import contract
from pvc.state import is_insert, is_update, is_delete, tbl_eq, same_row
from . import invariants as I

MS = "ch.mailbox_sides"
MB = "ch.mailboxes"
MSG = "ch.messages"
NP = "ch.nameplates"
NS = "ch.nameplate_sides"

# ---------------------------------------------------------------- _touch
c = contract("server.Mailbox._touch", cls="Mailbox", params={"when": "real"},
             modifies=[MB, "in_tx.ch"], tags=["C12", "C17"])


@c.ensures
def _(c):
    m = c.sf("_mailbox_id")
    yield "touch", is_update(c.pre.t(MB), c.post.t(MB), lambda r: r.id == m, {"updated": c.a.t("when")}), ["C12"]
    yield "in_tx", c.post.in_tx["ch"], ["C09"]


# ---------------------------------------------------------------- open
c = contract("server.Mailbox.open", cls="Mailbox", params={"side": "str", "when": "real"},
             modifies=[MS, MB, "in_tx.ch"], tags=["C05", "C08", "C09", "C12", "C14", "C17"])


@c.requires
def _(c):
    m = c.sf("_mailbox_id")
    # the INSERT into mailbox_sides has a foreign key on mailboxes(id)
    yield "mailbox_row_exists", c.pre.t(MB).exists(lambda r: r.id == m)


@c.ensures
def _(c):
    S0, S1 = c.pre, c.post
    m, side, when = c.sf("_mailbox_id"), c.a.t("side"), c.a.t("when")
    had = S0.t(MS).exists(lambda r: And(r.mailbox_id == m, r.side == side))
    # an existing side row is left exactly as it is (flags, added, mood); otherwise
    # exactly one row (m, opened, side, added=when, mood NULL) appears
    yield "side_row", If(had, tbl_eq(S0.t(MS), S1.t(MS)),
                         is_insert(S0.t(MS), S1.t(MS), {"mailbox_id": m, "opened": BoolVal(True), "side": side,
                                                        "added": when})), ["C14", "C05", "C08", "C10"]
    yield "touch", is_update(S0.t(MB), S1.t(MB), lambda r: r.id == m, {"updated": when}), ["C12"]
    yield "committed", Not(S1.in_tx["ch"]), ["C09", "C05", "C08", "C10", "C11", "C12"]


# ---------------------------------------------------------------- get_messages
c = contract("server.Mailbox.get_messages", cls="Mailbox", params={}, result="list:sm@rowlist:ch.messages",
             modifies=[], tags=["C01", "C06", "C17"])


def messages_result_clauses(c, res):
    a, m = c.sf("_app_id"), c.sf("_mailbox_id")
    T = c.pre.t(MSG)
    o = res.origin
    yield "origin_is_messages_table", And(o.tbl.live == T.live, *[o.tbl.cols[k] == T.cols[k] for k in T.cols]), ["C01"]
    # one list element per stored message of exactly this (app, mailbox), no other
    yield "exactly_own_rows", FA([INT], lambda r: Implies(T.live[r], o.pred(r) == And(T.cols["app_id"][r] == a,
                                                                                       T.cols["mailbox_id"][r] == m)),
                                 pats=lambda r: [T.live[r]]), ["C01", "C06"]
    yield "one_per_row", res.n == o.n, ["C01"]

    def verbatim(i):
        sm = res.at(i)
        r = o.rid[i]
        return Implies(And(0 <= i, i < res.n),
                       And(to_term(sm.fields["side"], "str") == T.cols["side"][r],
                           to_term(sm.fields["phase"], "str") == T.cols["phase"][r],
                           to_term(sm.fields["body"], "str") == T.cols["body"][r],
                           to_term(sm.fields["server_rx"], "real") == T.cols["server_rx"][r],
                           to_term(sm.fields["msg_id"], "json") == T.cols["msg_id"][r]))
    yield "fields_verbatim", FA([INT], verbatim), ["C01"]
    yield "ordered", FA([INT, INT], lambda i, j: Implies(And(0 <= i, i < j, j < res.n),
                                                         T.cols["server_rx"][o.rid[i]] <= T.cols["server_rx"][o.rid[j]])), ["C01"]


@c.ensures
def _(c):
    yield from messages_result_clauses(c, c.result)


# ---------------------------------------------------------------- _add_message
c = contract("server.Mailbox._add_message", cls="Mailbox", params={"sm": "sm"},
             modifies=[MSG, MB, "in_tx.ch"], tags=["C01", "C02", "C09", "C12", "C17"])


@c.requires
def _(c):
    a, m = c.sf("_app_id"), c.sf("_mailbox_id")
    # keeps I7 (no message without its mailbox); F5 is the call site that cannot establish this
    yield "mailbox_row_live", c.pre.t(MB).exists(lambda r: And(r.id == m, r.app_id == a))


@c.ensures
def _(c):
    S0, S1 = c.pre, c.post
    a, m = c.sf("_app_id"), c.sf("_mailbox_id")
    sm = c.a.sm.fields
    yield "one_row_verbatim", is_insert(S0.t(MSG), S1.t(MSG), {
        "app_id": a, "mailbox_id": m, "side": to_term(sm["side"], "str"), "phase": to_term(sm["phase"], "str"),
        "body": to_term(sm["body"], "str"), "server_rx": to_term(sm["server_rx"], "real"),
        "msg_id": to_term(sm["msg_id"], "json")}), ["C01", "C02"]
    yield "touch", is_update(S0.t(MB), S1.t(MB), lambda r: r.id == m,
                             {"updated": to_term(sm["server_rx"], "real")}), ["C12"]
    # C09, and C01: a stored message survives a restart only if it was committed
    yield "committed", Not(S1.in_tx["ch"]), ["C09", "C01", "C10", "C11"]


# ---------------------------------------------------------------- listeners
from pvc import heap as H            # noqa: E402
from pvc import callbacks as CB      # noqa: E402
from pvc.symex import card           # noqa: E402


def LS(S):
    return S.heap["Mailbox._listeners"]


c = contract("server.Mailbox.add_listener", cls="Mailbox",
             params={"handle": "ref:WebSocketServer", "send_f": "callback:send:handle", "stop_f": "callback:stop:handle"},
             result="list:sm@rowlist:ch.messages", modifies=["heap.Mailbox._listeners"],
             tags=["C01", "C02", "C05", "C08", "C12", "C13", "C14", "C15", "C17"])


@c.ensures
def _(c):
    me = c.self_ref
    yield "registered", LS(c.post) == Store(LS(c.pre), me, Store(LS(c.pre)[me], c.a.handle.t, True)), ["C02"]
    for n, t, tags in messages_result_clauses(c, c.result):
        yield "returns_get_messages." + n, t, tags


c = contract("server.Mailbox.remove_listener", cls="Mailbox", params={"handle": "ref:WebSocketServer"},
             modifies=["heap.Mailbox._listeners"], tags=["C01", "C02", "C05", "C08", "C12", "C13", "C14", "C15", "C17"])


@c.ensures
def _(c):
    me = c.self_ref
    yield "unregistered", LS(c.post) == Store(LS(c.pre), me, Store(LS(c.pre)[me], c.a.handle.t, False)), ["C02"]


c = contract("server.Mailbox.has_listeners", cls="Mailbox", params={}, result="bool", modifies=[],
             tags=["C12", "C17"])


@c.ensures
def _(c):
    ls = LS(c.pre)[c.self_ref]
    yield "nonempty", to_term(c.result, "bool") == EX([INT], lambda h: ls[h]), ["C12"]


c = contract("server.Mailbox.count_listeners", cls="Mailbox", params={}, result="int", modifies=[],
             tags=["C15", "C17"])


@c.ensures
def _(c):
    yield "cardinality", to_term(c.result, "int") == card(LS(c.pre)[c.self_ref]), ["C15"]


# ---------------------------------------------------------------- broadcast / add_message
def is_message_frame(fr, sm):
    f = sm.fields
    FV = H.FV
    return And(fr[S("type")] == FV.fstr(S("message")),
               fr[S("side")] == FV.fstr(to_term(f["side"], "str")),
               fr[S("phase")] == FV.fstr(to_term(f["phase"], "str")),
               fr[S("body")] == FV.fstr(to_term(f["body"], "str")),
               fr[S("server_rx")] == FV.fnum(to_term(f["server_rx"], "real")),
               fr[S("id")] == FV.fjson(to_term(f["msg_id"], "json")),
               FV.is_fnum(fr[S("server_tx")]),
               FA([Str], lambda k: Implies(And(k != S("type"), k != S("side"), k != S("phase"), k != S("body"),
                                               k != S("server_rx"), k != S("id"), k != S("server_tx")),
                                           fr[k] == FV.absent)))


def fanout(S0, S1, who, sm):
    """every connection c with who(c) gets exactly one more frame, message(sm);
    every other connection's outbox is unchanged"""
    from .outbox import prefix_kept
    return And(
        FA([INT], lambda cn: S1.out_len[cn] == S0.out_len[cn] + If(who(cn), 1, 0), pats=lambda cn: [S1.out_len[cn]]),
        FA([INT, INT], lambda cn, i: Implies(And(0 <= i, i < S0.out_len[cn]), S1.out_buf[cn][i] == S0.out_buf[cn][i]),
           pats=lambda cn, i: [S1.out_buf[cn][i]]),
        FA([INT], lambda cn: Implies(who(cn), is_message_frame(S1.out_buf[cn][S0.out_len[cn]], sm)),
           pats=lambda cn: [S1.out_len[cn]]))


c = contract("server.Mailbox.broadcast_message", cls="Mailbox", params={"sm": "sm"}, modifies=["out"],
             tags=["C02", "C09", "C17"])


@c.requires
def _(c):
    yield "clean", I.Clean(c.pre)       # C09: frames are emitted only from a committed state


@c.ensures
def _(c):
    ls = LS(c.pre)[c.self_ref]
    yield "each_listener_once", fanout(c.pre, c.post, lambda cn: ls[cn], c.a.sm), ["C02"]


@c.loop(0, modifies=["out"], tags=["C02"], over="self._listeners.values()")
def _(c, L):
    yield "done_got_it", fanout(c.pre, c.post, lambda cn: L.done(cn), c.a.sm)


c = contract("server.Mailbox.add_message", cls="Mailbox", params={"sm": "sm"},
             modifies=[MSG, MB, "in_tx.ch", "out"], tags=["C01", "C02", "C09", "C12", "C17"])


@c.requires
def _(c):
    a, m = c.sf("_app_id"), c.sf("_mailbox_id")
    yield "mailbox_row_live", c.pre.t(MB).exists(lambda r: And(r.id == m, r.app_id == a))
    yield "clean_us", Not(c.pre.in_tx["us"])


@c.ensures
def _(c):
    S0, S1 = c.pre, c.post
    a, m = c.sf("_app_id"), c.sf("_mailbox_id")
    sm = c.a.sm.fields
    yield "persisted", is_insert(S0.t(MSG), S1.t(MSG), {
        "app_id": a, "mailbox_id": m, "side": to_term(sm["side"], "str"), "phase": to_term(sm["phase"], "str"),
        "body": to_term(sm["body"], "str"), "server_rx": to_term(sm["server_rx"], "real"),
        "msg_id": to_term(sm["msg_id"], "json")}), ["C01", "C02"]
    yield "touch", is_update(S0.t(MB), S1.t(MB), lambda r: r.id == m,
                             {"updated": to_term(sm["server_rx"], "real")}), ["C12"]
    yield "committed", Not(S1.in_tx["ch"]), ["C09", "C01", "C10", "C11"]
    ls = LS(S0)[c.self_ref]
    yield "fanout", fanout(S0, S1, lambda cn: ls[cn], c.a.sm), ["C02"]


# ---------------------------------------------------------------- close
from . import specs                                       # noqa: E402
from pvc.state import is_insert_where, comp_eq            # noqa: E402

UNP, UMB = "us.nameplates", "us.mailboxes"
CLOSE_MOD = [MS, MB, MSG, NP, NS, UNP, UMB, "in_tx.ch", "in_tx.us", "heap.Mailbox._listeners",
             "heap.AppNamespace._mailboxes", "heap.WebSocketServer._mailbox", "heap.WebSocketServer._listening"]
c = contract("server.Mailbox.close", cls="Mailbox", params={"side": "str", "mood": "optstr", "when": "real"},
             modifies=CLOSE_MOD, tags=["C01", "C06", "C07", "C08", "C09", "C10", "C13", "C14", "C15", "C16", "C17"])


@c.requires
def _(c):
    S = c.pre
    yield "I1", I.I1(S)
    yield "I2", I.I2(S)
    yield "I4", I.I4(S)
    yield "I5", I.I5(S)
    yield "I6", I.I6(S)
    yield "I7", I.I7(S)
    yield "I8a", I.I8a(S)
    yield "clean", I.Clean(S)
    app = S.heap["Mailbox._app"][c.self_ref]
    yield "app_consistent", And(app != 0, S.heap["AppNamespace._app_id"][app] == c.sf("_app_id"))
    from . import heapinv as HI
    yield "GH5", HI.GH5(S)
    yield "GH4", HI.GH4(S)
    from .appnamespace import registry_wf
    yield "registry_wf", registry_wf(S, app)
    yield "registered", S.heap["AppNamespace._mailboxes"][app][c.sf("_mailbox_id")] == c.self_ref
    yield "app_registered", S.heap["Server._apps"][H.SERVER][c.sf("_app_id")] == app


def unchanged_all(c, comps):
    return conj([comp_eq(k, c.pre.get_comp(k), c.post.get_comp(k)) for k in comps])


@c.ensures
def _(c):
    from .appnamespace import mb_summary_spec, np_summary_spec, row_usage
    S0, S1 = c.pre, c.post
    a, m = c.sf("_app_id"), c.sf("_mailbox_id")
    side, when = c.a.t("side"), c.a.t("when")
    mood_none, mood = c.a.mood.is_none, to_term(c.a.mood.val, "str")
    me = c.self_ref
    app = S0.heap["Mailbox._app"][me]
    mb0, ms0, msg0, np0, ns0 = S0.t(MB), S0.t(MS), S0.t(MSG), S0.t(NP), S0.t(NS)
    mb1, ms1, msg1, np1, ns1 = S1.t(MB), S1.t(MS), S1.t(MSG), S1.t(NP), S1.t(NS)
    B = mb0.exists(lambda r: And(r.app_id == a, r.id == m))
    mine = lambda r: And(r.mailbox_id == m, r.side == side)
    s = ms0.exists(mine)
    act = And(B, s)
    # C08/C14: closing what is not there (or what this side never opened) changes nothing
    yield "noop", Implies(Not(act), unchanged_all(c, CLOSE_MOD)), ["C08", "C14"]
    # no other side of this mailbox is still open
    last = ms0.none(lambda r: And(r.mailbox_id == m, r.side != side, r.opened))
    flag = is_update(ms0, ms1, mine, {"opened": BoolVal(False), "mood": (mood_none, mood)})
    yield "delete_iff_last", Implies(act, mb1.exists(lambda r: r.id == m) == Not(last)), ["C08"]
    # the mailbox survives: this side's row is flagged closed with its mood, nothing else moves
    yield "survives", Implies(And(act, Not(last)), And(
        flag, *[comp_eq(k, S0.get_comp(k), S1.get_comp(k)) for k in CLOSE_MOD if k not in (MS, "in_tx.ch", "in_tx.us")])), ["C08", "C12"]
    dele = And(act, last)
    # the mailbox goes, and with it exactly: its messages, its side rows, the nameplate pointing at it and
    # that nameplate's side rows; every other row of every table stays (C08, C07, C06, C01)
    yield "delete_complete.mailboxes", Implies(dele, is_delete(mb0, mb1, lambda r: r.id == m)), ["C08", "C06"]
    yield "delete_complete.mailbox_sides", Implies(dele, is_delete(ms0, ms1, lambda r: r.mailbox_id == m)), ["C08", "C06"]
    yield "delete_complete.messages", Implies(dele, is_delete(msg0, msg1, lambda r: And(r.app_id == a, r.mailbox_id == m))), ["C08", "C01", "C13", "C06"]
    yield "delete_complete.nameplates", Implies(dele, is_delete(np0, np1, lambda r: r.mailbox_id == m)), ["C08", "C07", "C06"]
    yield "nameplate_cleanup_exact", Implies(dele, is_delete(
        ns0, ns1, lambda r: And(np0.live[r.nameplates_id], np0.cols["mailbox_id"][r.nameplates_id] == m))), ["C07", "C06", "C08"]
    # C15/C16: one usage record for the mailbox and one for the nameplate retired with it
    member = lambda r: And(ms0.live[r], ms0.cols["mailbox_id"][r] == m)
    added = lambda r: ms0.cols["added"][r]
    mood_is = lambda r, sv: If(ms0.cols["side"][r] == side, And(Not(mood_none), mood == sv),
                               And(Not(ms0.nulls["mood"][r]), ms0.cols["mood"][r] == sv))
    yield "usage_one_per_retired.mailboxes", If(
        And(dele, H.CFG_USAGE),
        is_insert_where(S0.t(UMB), S1.t(UMB), lambda row: And(
            row.app_id == a,
            mb0.exists(lambda r: And(r.app_id == a, r.id == m, r.for_nameplate == row.for_nameplate)),
            *[t for _, t, _ in mb_summary_spec(None, when, BoolVal(False), *row_usage(row), member=member,
                                               added=added, mood_is=mood_is)])),
        tbl_eq(S0.t(UMB), S1.t(UMB))), ["C15", "C16"]

    def np_usage(n):
        return np_usage_rel(S0.t(UNP), S1.t(UNP), ns0, n, a, when)
    points = lambda n: And(np0.live[n], np0.cols["mailbox_id"][n] == m)
    yield "usage_one_per_retired.nameplates", If(
        And(dele, H.CFG_USAGE, EX([INT], points)),
        FA([INT], lambda n: Implies(points(n), np_usage(n))),
        tbl_eq(S0.t(UNP), S1.t(UNP))), ["C15", "C16"]
    # registry: a deleted mailbox is unregistered and has no listeners left
    ls0, ls1 = S0.heap["Mailbox._listeners"], S1.heap["Mailbox._listeners"]
    r0, r1 = S0.heap["AppNamespace._mailboxes"], S1.heap["AppNamespace._mailboxes"]
    yield "registry", Implies(dele, And(ls1 == Store(ls0, me, K(INT, BoolVal(False))),
                                        r1 == Store(r0, app, Store(r0[app], m, 0)))), ["C02", "C08"]
    # every connection that was still subscribed to a deleted mailbox drops its handle (F5 repair);
    # nobody else's connection state changes
    cm0, cm1 = S0.heap["WebSocketServer._mailbox"], S1.heap["WebSocketServer._mailbox"]
    cl0, cl1 = S0.heap["WebSocketServer._listening"], S1.heap["WebSocketServer._listening"]
    yield "subscribers_dropped", If(dele,
                                    And(FA([INT], lambda h: cm1[h] == If(ls0[me][h], 0, cm0[h]), pats=lambda h: [cm1[h]]),
                                        FA([INT], lambda h: cl1[h] == If(ls0[me][h], False, cl0[h]), pats=lambda h: [cl1[h]])),
                                    And(cm1 == cm0, cl1 == cl0)), ["C02", "C08", "C13"]
    yield "committed", I.Clean(S1), ["C09", "C01", "C07", "C08", "C10", "C11", "C15"]
    # H4/H5 (C02, C13, C01): nobody stays subscribed to a Mailbox object whose row is gone (F5)
    from . import heapinv as HI
    yield "preserves.GH5", HI.GH5(S1), ["C02", "C13", "C01"]
    yield "preserves.GH4", HI.GH4(S1), ["C02", "C13", "C01"]


def np_usage_rel(U0, U1, ns0, n, a, when):
    from .appnamespace import np_summary_spec, row_usage
    nmember = lambda r: And(ns0.live[r], ns0.cols["nameplates_id"][r] == n)
    nadded = lambda r: ns0.cols["added"][r]
    return is_insert_where(U0, U1, lambda row: And(row.app_id == a, *[
        t for _, t, _ in np_summary_spec(None, when, BoolVal(False), *row_usage(row), member=nmember, added=nadded)]))


@c.loop(0, modifies=[NS, UNP, "in_tx.ch", "in_tx.us"], tags=["C07", "C08", "C15", "C06"], over="np_rows")
def _(c, L):
    """nameplate clean-up loop: the side rows of the nameplates processed so far are gone (and
    summarised); by I6 at most one nameplate points at the mailbox"""
    E, S = L.entry, c.post
    a, when = c.sf("_app_id"), c.a.t("when")
    rows = L.seq
    yield "at_most_one_nameplate", rows.n <= 1
    yield "sides_of_done_gone", is_delete(E.t(NS), S.t(NS), lambda r: L.done(r.nameplates_id))
    did = And(H.CFG_USAGE, L.k >= 1)
    yield "usage", If(did, np_usage_rel(E.t(UNP), S.t(UNP), E.t(NS), rows.rid[0], a, when),
                      tbl_eq(E.t(UNP), S.t(UNP))), ["I1", "I6", "I8a", "app_consistent"]
    yield "in_tx_us", If(did, S.in_tx["us"], S.in_tx["us"] == E.in_tx["us"])
    from pvc.state import arrays_equal
    yield "untouched_before_first", Implies(L.k == 0, And(arrays_equal(E.t(NS), S.t(NS)), arrays_equal(E.t(UNP), S.t(UNP))))


@c.loop(1, modifies=["heap.WebSocketServer._mailbox", "heap.WebSocketServer._listening"], tags=["C02", "C08", "C13"],
        over="self._listeners.values()")
def _(c, L):
    """stop loop: every listener processed so far has dropped its handle; the others are untouched"""
    E, S = L.entry, c.post
    for f in ("_mailbox", "_listening"):
        e, s_ = E.heap["WebSocketServer." + f], S.heap["WebSocketServer." + f]
        reset = IntVal(0) if f == "_mailbox" else BoolVal(False)
        yield "done_dropped." + f, FA([INT], lambda h: s_[h] == If(L.done(h), reset, e[h]), pats=lambda h: [s_[h]])


# ---------------------------------------------------------------- invariant preservation
from pvc.contract import REGISTRY as _R    # noqa: E402
I.add_preserves(_R["server.Mailbox.close"])
I.add_preserves(_R["server.Mailbox.add_message"])

# count_listeners is a function of the pre-state: callers see the term itself
_R["server.Mailbox.count_listeners"].result_term = lambda c: card(LS(c.pre)[c.self_ref])

# Mailbox.open and _add_message commit too: their commit points must be Recoverable (C10)
_names = [n for n in I.DB_INV if n != "I9a"]
I.add_preserves(_R["server.Mailbox.open"], names=_names)


@_R["server.Mailbox.open"].requires
def _(c):
    yield "I9a_but_this", I.I9a_but(c.pre, c.sf("_mailbox_id"))


@_R["server.Mailbox.open"].ensures
def _(c):
    yield "preserves.I9a", I.I9a(c.post), ["C10"]


I.add_preserves(_R["server.Mailbox._add_message"])
for _q in ("server.Mailbox.open", "server.Mailbox._add_message"):
    for _t in ("C10",):
        if _t not in _R[_q].tags:
            _R[_q].tags.append(_t)
