"""Specification functions written from the property texts (C15, C16, C04)."""
import z3
from pvc.zs import *  # noqa
from pvc import heap as H


def blur_rel(stored, t):
    """C16: with a blur interval b the stored value is the multiple of b at or
    below t and less than b before it; without, it is t itself."""
    b = H.CFG_BLUR
    return If(H.CFG_BLUR_NONE, stored == t,
              EX([INT], lambda k: And(stored == b * z3.ToReal(k), stored <= t, t < stored + b)))


def two_distinct(member):
    return EX([INT, INT], lambda x, y: And(member(x), member(y), x != y))


def three_distinct(member):
    return EX([INT, INT, INT], lambda x, y, z: And(member(x), member(y), member(z), x != y, x != z, y != z))


def times_spec(member, added, t, started, w_isnone, w, total):
    """started/waiting/total derived from the first and second arrival and the
    retirement time t (C15), started blurred (C16). `member(r)` ranges over the
    retired object's side rows, `added(r)` their arrival times."""
    def first(r0):
        is_min = FA([INT], lambda r: Implies(member(r), added(r0) <= added(r)))
        second = If(EX([INT], lambda r1: And(member(r1), r1 != r0)),
                    And(Not(w_isnone),
                        EX([INT], lambda r1: And(member(r1), r1 != r0,
                                                 FA([INT], lambda r: Implies(And(member(r), r != r0),
                                                                             added(r1) <= added(r))),
                                                 w == added(r1) - added(r0)))),
                    w_isnone)
        return And(member(r0), is_min, blur_rel(started, added(r0)), total == t - added(r0), second)
    return EX([INT], first)


def np_result(member, pruned):
    """documented precedence for nameplates: crowded, pruney, happy (2 sides), lonely"""
    return If(three_distinct(member), S("crowded"),
              If(pruned, S("pruney"),
                 If(two_distinct(member), S("happy"), S("lonely"))))


def mb_result(member, mood_is, pruned):
    """documented precedence for mailboxes: crowded, pruney, scary, errory, lonely,
    else happy/lonely by number of sides. mood_is(r, s): row r reported mood s."""
    def some(s):
        return EX([INT], lambda r: And(member(r), mood_is(r, S(s))))
    return If(three_distinct(member), S("crowded"),
              If(pruned, S("pruney"),
                 If(some("scary"), S("scary"),
                    If(some("errory"), S("errory"),
                       If(some("lonely"), S("lonely"),
                          If(two_distinct(member), S("happy"), S("lonely")))))))
