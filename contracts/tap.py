"""Contracts of server_tap: the periodic sweep `expire` (closure of makeService) and the constants."""
import ast
import z3
from pvc.zs import *  # noqa
from pvc.values import *  # noqa
from pvc.contract import contract
from pvc.state import tbl_eq
from pvc import heap as H
from . import invariants as I
from . import heapinv as HI
from .server import (sweep_pre, PAA_MOD, protected_kept, apps_wf, heap_quiet, GH3, apptot_axiom, UCUR, MB)
from .appnamespace import cardarr_axiom, hp

EXPIRE_MOD = PAA_MOD + [UCUR]
c = contract("server_tap.makeService.<locals>.expire", cls=None, params={}, modifies=EXPIRE_MOD,
             tags=["C01", "C03", "C05", "C07", "C08", "C09", "C10", "C11", "C12", "C13", "C15", "C17", "C18"])
c.free = {"server": "the_server", "rebooted": "real"}
# an exception escaping `expire` stops the TimerService: that is about the sweeps continuing (C13) and about a
# restarted server completing its sweeps (C10), not about what a sweep that does run deletes or answers
c.no_exception_tags = ["C10", "C13"]


@c.requires
def _(c):
    S = c.pre
    for n in I.DB_INV:
        yield n, I.NAMED[n](S)
    yield "clean", I.Clean(S)
    yield "apps_wf", apps_wf(S)
    yield "GH4", HI.GH4(S)
    yield "GH5", HI.GH5(S)


def module_consts(src_mod="server_tap"):
    from pvc.front import Source
    return Source().module_constants(src_mod)


@c.ensures
def _(c):
    S0, S1 = c.pre, c.post
    args = c.ghost("Server.prune_all_apps@args")
    E = module_consts()["CHANNEL_EXPIRATION_TIME"]
    # every timer tick attempts the sweep (no guard that depends on in-memory state such as the start time)
    yield "sweep_attempted", BoolVal(args is not None), ["C13", "C10", "C11"]
    if args is not None:
        now, old = to_term(args["now"], "real"), to_term(args["old"], "real")
        # C12: the sweep is asked to delete what was idle for the whole expiration time, measured from one clock read
        yield "cutoff", old == now - RealVal(E), ["C12", "C13"]
        clk = c.ghost("time.time@first")
        # ... and `now` is that clock read itself (not rounded, shifted or taken from configuration)
        yield "now_is_the_clock_read", BoolVal(False) if clk is None else (now == clk), ["C12", "C13", "C18", "C11"]
        dargs = c.ghost("Server.dump_stats@args")
        if dargs is not None:
            yield "stats_use_same_clock_read", to_term(dargs["now"], "real") == now, ["C15"]
            yield "stats_rebooted", to_term(dargs["rebooted"], "real") == c.a.t("rebooted"), ["C15"]


# when the sweep itself completes, expire passes its guarantees through
@c.ensures
def _(c):
    S0, S1 = c.pre, c.post
    if c.ghost("Server.prune_all_apps") is not None:
        args = c.ghost("Server.prune_all_apps@args")
        old = to_term(args["old"], "real")
        for n, t in protected_kept(S0, S1, old):
            yield "protected_kept." + n, t, ["C12", "C01", "C03", "C05", "C07", "C08"]
        yield "all_remaining_fresh", S1.t(MB).forall(lambda r: r.updated > old), ["C13"]
        from .server import sub_row
        mb0, mb1 = S0.t(MB), S1.t(MB)
        yield "only_protected_remain", FA([INT], lambda r: Implies(mb1.live[r], And(
            mb0.live[r], Or(mb0.cols["updated"][r] > old, sub_row(S0, mb0, r)))), pats=lambda r: [mb1.live[r]]), ["C13"]
        for n in I.DB_INV:
            yield "preserves." + n, I.NAMED[n](S1), ["C10", "C13", "C17"]
        yield "exit.clean", I.Clean(S1), ["C09"]
        yield "preserves.GH4", HI.GH4(S1), ["C12"]
        yield "preserves.GH5", HI.GH5(S1), ["C12"]


def constants(src):
    """C12/C13: CHANNEL_EXPIRATION_TIME > EXPIRATION_CHECK_PERIOD > 0, and the timer is built from
    EXPIRATION_CHECK_PERIOD and `expire` (A11 then gives: expire runs every P seconds)"""
    k = src.module_constants("server_tap")
    E, P = k.get("CHANNEL_EXPIRATION_TIME"), k.get("EXPIRATION_CHECK_PERIOD")
    out = [("census.constants.expiration_gt_period_gt_0", bool(E is not None and P is not None and E > P > 0),
            "CHANNEL_EXPIRATION_TIME=%r EXPIRATION_CHECK_PERIOD=%r" % (E, P))]
    fd = src.func("server_tap.makeService")
    timers = [n for n in ast.walk(fd) if isinstance(n, ast.Call) and ast.unparse(n.func) == "TimerService"]
    ok = len(timers) == 1 and [ast.unparse(a) for a in timers[0].args] == ["EXPIRATION_CHECK_PERIOD", "expire"]
    out.append(("census.timer_wiring", ok, "TimerService calls: %s" % [ast.unparse(t) for t in timers]))
    # the timer service is attached to the service parent on the statement that builds it
    attached = any(isinstance(n, ast.Call) and isinstance(n.func, ast.Attribute) and n.func.attr == "setServiceParent"
                   and isinstance(n.func.value, ast.Call) and ast.unparse(n.func.value.func) == "TimerService"
                   for n in ast.walk(fd))
    out.append(("census.timer_attached", attached, "TimerService(...).setServiceParent(parent)"))
    # ... unconditionally: the statement is a direct child of makeService's body, `parent` is what makeService returns,
    # and no return statement precedes it
    top = [i for i, st in enumerate(fd.body) if isinstance(st, ast.Expr) and any(
        isinstance(n, ast.Call) and ast.unparse(n.func) == "TimerService" for n in ast.walk(st))]
    rets = [i for i, st in enumerate(fd.body) if any(isinstance(n, ast.Return) for n in ast.walk(st))
            and not isinstance(st, (ast.FunctionDef, ast.ClassDef))]
    parent_arg = [ast.unparse(n.args[0]) for st in fd.body for n in ast.walk(st)
                  if isinstance(n, ast.Call) and isinstance(n.func, ast.Attribute) and n.func.attr == "setServiceParent"
                  and isinstance(n.func.value, ast.Call) and ast.unparse(n.func.value.func) == "TimerService" and n.args]
    last_ret = fd.body[-1].value if isinstance(fd.body[-1], ast.Return) else None
    uncond = (len(top) == 1 and all(top[0] < r for r in rets) and last_ret is not None
              and parent_arg == [ast.unparse(last_ret)])
    out.append(("census.timer_unconditional", uncond,
                "TimerService statement at top level of makeService, before any return, attached to the returned service"))
    # wiring of configuration into make_server (C16/C18): blur_usage, usage_db, allow_list passed through
    calls = [n for n in ast.walk(fd) if isinstance(n, ast.Call) and ast.unparse(n.func) == "make_server"]
    kw = {k.arg: ast.unparse(k.value) for k in calls[0].keywords} if len(calls) == 1 else {}
    want = {"blur_usage": 'config["blur-usage"]', "usage_db": "usage_db", "allow_list": 'config["allow-list"]'}
    out.append(("census.make_server_wiring", all(kw.get(a, "").replace("'", '"') == v for a, v in want.items()),
                "make_server keywords: %s" % kw))
    return out
