"""Pure lemmas over the contracts / assumed builtin contracts (Tier B)."""
import time
import z3
from pvc.zs import *  # noqa


def _prove(name, hyps, goal, timeout_ms):
    s = z3.SimpleSolver()
    s.set("timeout", timeout_ms)
    for a in base_axioms():
        s.add(a)
    for h in hyps:
        s.add(h)
    s.add(Not(goal))
    t = time.time()
    r = s.check()
    return {"name": name, "status": "discharged" if r == z3.unsat else "unknown", "backend": "z3",
            "secs": round(time.time() - t, 3), "detail": "" if r == z3.unsat else "z3: %s" % r}


def sorted_lemmas(timeout_ms):
    """A3 says sorted() returns an ordered permutation (three axioms). The executor also
    hands the solver four consequences; they are proved here from the axioms alone."""
    n = Const("n", INT)
    el = Array("el", INT, REAL)
    out = Array("out", INT, REAL)
    perm = Array("perm", INT, INT)
    inv = Array("inv", INT, INT)
    a1 = lambda i: Implies(And(0 <= i, i < n), And(0 <= perm[i], perm[i] < n, inv[perm[i]] == i,
                                                   out[i] == el[perm[i]]))
    a2 = lambda j: Implies(And(0 <= j, j < n), And(0 <= inv[j], inv[j] < n, perm[inv[j]] == j))
    a3 = lambda i, j: Implies(And(0 <= i, i < j, j < n), out[i] <= out[j])
    ax = [n >= 0, FA([INT], a1), FA([INT], a2), FA([INT, INT], a3)]
    res = []
    res.append(_prove("lemma.A3.sorted.first_is_element",
                      ax, Implies(n > 0, And(0 <= perm[0], perm[0] < n, out[0] == el[perm[0]])), timeout_ms))
    res.append(_prove("lemma.A3.sorted.second_is_other_element",
                      ax, Implies(n > 1, And(0 <= perm[1], perm[1] < n, out[1] == el[perm[1]], perm[1] != perm[0])),
                      timeout_ms))
    j = Const("j", INT)
    # instances of the axioms (logical consequences) given as hints: a2 at j, a1 at inv[j], a3 at (0, inv[j])
    hints = [a2(j), a1(inv[j]), a3(IntVal(0), inv[j])]
    res.append(_prove("lemma.A3.sorted.first_is_min", ax + hints, Implies(And(0 <= j, j < n), out[0] <= el[j]),
                      timeout_ms))
    res.append(_prove("lemma.A3.sorted.second_is_min_of_rest", ax + [a2(j), a1(inv[j]), a3(IntVal(1), inv[j])],
                      Implies(And(0 <= j, j < n, j != perm[0]), out[1] <= el[j]), timeout_ms))
    return res


def drains(timeout_ms):
    """C13.drains / C10.drains: if a sweep leaves no mailbox row (nothing was protected), then by the
    foreign keys (I1) and I7 no side row, nameplate, nameplate side or message is left either."""
    from pvc.state import State
    from . import invariants as I
    S = State.symbolic("L")
    hyps = [I.I1(S), I.I7(S), I.MB(S).none(lambda r: BoolVal(True))]
    out = []
    for name, t in (("mailbox_sides", I.MS(S)), ("nameplates", I.NP(S)), ("nameplate_sides", I.NS(S)), ("messages", I.MSG(S))):
        out.append(_prove("lemma.C13.drains." + name, hyps, t.none(lambda r: BoolVal(True)), timeout_ms))
    return out


def timing(timeout_ms):
    """C12/C13 arithmetic over the constants read from server_tap.py (A11: sweeps are P apart; A15)."""
    from pvc.front import Source
    k = Source().module_constants("server_tap")
    E, P = RealVal(k["CHANNEL_EXPIRATION_TIME"]), RealVal(k["EXPIRATION_CHECK_PERIOD"])
    t, touch, now, upd = Const("t", REAL), Const("touch", REAL), Const("now", REAL), Const("upd", REAL)
    out = []
    # activity at t within the expiration time before the sweep at `now`: not old
    out.append(_prove("lemma.C12.alive", [t > now - E], Not(t <= now - E), timeout_ms))
    # a client subscribed until t was touched by a sweep later than t-P (or acted at t); every sweep up to
    # t + (E-P) then still finds its mailbox newer than old = now-E: it may be away for E-P
    out.append(_prove("lemma.C12.away", [touch > t - P, now <= t + (E - P)], touch > now - E, timeout_ms))
    out.append(_prove("lemma.C12.away_is_positive", [], E - P > 0, timeout_ms))
    # no activity and no subscriber after t: updated <= t; the first sweep at or after t+E sees it as old,
    # and with sweeps P apart that sweep comes before t+E+P
    out.append(_prove("lemma.C13.when", [upd <= t, now >= t + E], upd <= now - E, timeout_ms))
    return out


def distinct_mailboxes(timeout_ms):
    """C03.distinct: different live nameplates (any apps, any names) point at different mailboxes (I6)"""
    from pvc.state import State
    from . import invariants as I
    S = State.symbolic("L")
    np_ = I.NP(S)
    a, b = Const("n1", INT), Const("n2", INT)
    return [_prove("lemma.C03.distinct", [I.I6(S), np_.live[a], np_.live[b], a != b],
                   np_.cols["mailbox_id"][a] != np_.cols["mailbox_id"][b], timeout_ms)]


def induction_base(timeout_ms):
    """Inv.init / Inv.restart: the invariants every event handler requires hold (a) on the empty database with an
    empty heap and (b) after a restart - any database satisfying the database invariants, registries
    empty, every connection dead - because all heap invariants are quantified over alive connections
    and registered objects."""
    from pvc.state import State
    from pvc import heap as H
    from . import invariants as I
    from . import heapinv as HI
    from .server import apps_wf, GH3
    out = []
    S = State.symbolic("L")
    empty = [t.none(lambda r: BoolVal(True)) for t in (I.NP(S), I.NS(S), I.MB(S), I.MS(S), I.MSG(S))] + [S.np_next >= 1]
    for n in I.DB_INV:
        out.append(_prove("lemma.Inv.init." + n, empty, I.NAMED[n](S), timeout_ms))
    alive = S.heap["WebSocketServer.alive"]
    reset = [FA([INT], lambda c: Not(alive[c])),
             S.heap["Server._apps"][H.SERVER] == K(Str, IntVal(0)),
             FA([INT, INT], lambda M, c: Not(S.heap["Mailbox._listeners"][M][c]))]
    for name, inv in (("apps_wf", apps_wf(S)), ("GH3", GH3(S)), ("GH4", HI.GH4(S)), ("GH5", HI.GH5(S))):
        out.append(_prove("lemma.Inv.restart." + name, reset, inv, timeout_ms))
    return out
