"""Pure lemmas over the contracts / assumed builtin contracts (Tier B)."""
import time
import z3
from pvc.zs import *  # noqa


def _prove(name, hyps, goal, timeout_ms):
    s = z3.Solver()
    s.set("timeout", timeout_ms)
    for a in base_axioms():
        s.add(a)
    for h in hyps:
        s.add(h)
    s.add(Not(goal))
    t = time.time()
    r = s.check()
    return {"name": name, "status": "discharged" if r == z3.unsat else "unknown", "backend": "z3",
            "secs": round(time.time() - t, 3), "detail": "" if r == z3.unsat else "z3: %s" % r}


def sorted_lemmas(timeout_ms):
    """A3 says sorted() returns an ordered permutation (three axioms). The executor also
    hands the solver four consequences; they are proved here from the axioms alone."""
    n = Const("n", INT)
    el = Array("el", INT, REAL)
    out = Array("out", INT, REAL)
    perm = Array("perm", INT, INT)
    inv = Array("inv", INT, INT)
    a1 = lambda i: Implies(And(0 <= i, i < n), And(0 <= perm[i], perm[i] < n, inv[perm[i]] == i,
                                                   out[i] == el[perm[i]]))
    a2 = lambda j: Implies(And(0 <= j, j < n), And(0 <= inv[j], inv[j] < n, perm[inv[j]] == j))
    a3 = lambda i, j: Implies(And(0 <= i, i < j, j < n), out[i] <= out[j])
    ax = [n >= 0, FA([INT], a1), FA([INT], a2), FA([INT, INT], a3)]
    res = []
    res.append(_prove("lemma.A3.sorted.first_is_element",
                      ax, Implies(n > 0, And(0 <= perm[0], perm[0] < n, out[0] == el[perm[0]])), timeout_ms))
    res.append(_prove("lemma.A3.sorted.second_is_other_element",
                      ax, Implies(n > 1, And(0 <= perm[1], perm[1] < n, out[1] == el[perm[1]], perm[1] != perm[0])),
                      timeout_ms))
    j = Const("j", INT)
    # instances of the axioms (logical consequences) given as hints: a2 at j, a1 at inv[j], a3 at (0, inv[j])
    hints = [a2(j), a1(inv[j]), a3(IntVal(0), inv[j])]
    res.append(_prove("lemma.A3.sorted.first_is_min", ax + hints, Implies(And(0 <= j, j < n), out[0] <= el[j]),
                      timeout_ms))
    res.append(_prove("lemma.A3.sorted.second_is_min_of_rest", ax + [a2(j), a1(inv[j]), a3(IntVal(1), inv[j])],
                      Implies(And(0 <= j, j < n, j != perm[0]), out[1] <= el[j]), timeout_ms))
    return res
