"""C19 / C20: obligations over the file-system model (pvc/fsx.py) for database.py.

Pre-states are all *classes* of file content (content itself symbolic); every writing library
call is a crash point. Each obligation is decided by executing the real AST on the abstract state
(ground evaluation), exhaustively over classes x crash points."""
import time
from pvc import fsx
from pvc.fsx import FState, Path, ABSENT, fresh_schema, run
from pvc.front import Source

P = Path("main")


def ob(name, ok, detail=""):
    return {"name": name, "status": "discharged" if ok else "failed", "backend": "fsx: symbolic execution of database.py, exhaustive case analysis",
            "secs": 0.0, "detail": "" if ok else detail, "kind": "fs"}


def targets(src):
    k = src.module_constants("database")
    return [("channel", k["CHANNELDB_TARGET_VERSION"]), ("usage", k["USAGEDB_TARGET_VERSION"])]


def complete(st, name, ver):
    return st.kind == "db" and st.schema == fresh_schema(name, ver) and st.version == (ver,)


def pre_classes(name, ver):
    """every class of pre-existing content of the database path"""
    full = fresh_schema(name, ver)
    out = [("junk", FState("junk")), ("current", FState("db", full, (ver,))),
           ("newer_version", FState("db", full, (ver + 1,))), ("version_999", FState("db", full, (999,))),
           ("no_version_rows", FState("db", full, ())), ("version_NULL", FState("db", full, (None,))),
           ("no_version_table", FState("db", frozenset(s for s in full if not s.startswith("create table version")), None)),
           ("fk_violations", FState("db", full, (ver,), fk_ok=False)),
           ("empty_sqlite_file", FState("db", frozenset(), None))]
    return out


def c19(timeout_ms=0):
    src = Source()
    out = []
    for name, ver in targets(src):
        tag = "%s-v%d" % (name, ver)
        # ---- first-time creation: every crash point -------------------------------------------------
        (kind, *rest), w = run(src, "_get_db", [P, name, ver], {})
        ok = kind == "return" and complete(w.get(P), name, ver)
        out.append(ob("database._get_db#absent.creates_complete[%s]" % tag, ok, "outcome %s, file %r" % (kind, w.get(P))))
        nsteps = len(w.trace)
        bad, frame_bad, tmp_bad = [], [], []
        for k, (what, snap) in enumerate(w.trace):
            st = snap.get(P, ABSENT)
            if not (st.kind == "absent" or complete(st, name, ver)):
                bad.append((k, what, repr(st)))
        # before the rename only a temp file next to the target (same directory, name = basename + ".") is written
        for what, path in w.writes:
            if what.startswith("rename"):
                break
            if path == P:
                frame_bad.append(what)
            if not (isinstance(path, Path) and path.kind == "temp" and path.base[0] == Path("dirname", P)
                    and path.base[1] == Path("concat", Path("basename", P), ".")):
                tmp_bad.append((what, repr(path)))
        out.append(ob("database._atomic_create_and_initialize_db#crash.absent_or_complete[%s]" % tag, not bad,
                      "crash points leaving a partial database at the path: %s" % bad[:3]))
        out.append(ob("database._atomic_create_and_initialize_db#frame.only_temp_before_rename[%s]" % tag,
                      not frame_bad and not tmp_bad, "%s %s" % (frame_bad[:2], tmp_bad[:2])))
        # next start after a crash at each point succeeds and yields a complete database
        nbad = []
        for k in range(1, nsteps + 1):
            (kind, *_), wk = run(src, "_get_db", [P, name, ver], {}, crash_after=k)
            (kind2, *r2), w2 = run(src, "_get_db", [P, name, ver], wk.fs)
            if not (kind2 == "return" and complete(w2.get(P), name, ver)):
                nbad.append((k, wk.trace[-1][0] if wk.trace else "", kind2, str(r2[0]) if r2 else ""))
        out.append(ob("lemma.C19.next_start[%s]" % tag, not nbad and nsteps >= 4, "%d steps; failing restarts: %s" % (nsteps, nbad[:3])))
        # ---- existing file: kept or rejected unchanged ----------------------------------------------
        for cname, st in pre_classes(name, ver):
            (kind, *rest), w = run(src, "_get_db", [P, name, ver], {P: st})
            unchanged = w.get(P).bytes_id == st.bytes_id and not [x for x in w.writes if x[1] == P]
            if cname == "current":
                out.append(ob("database._get_db#current.kept_only_reads[%s]" % tag, kind == "return" and unchanged and not w.writes,
                              "outcome %s writes %s" % (kind, w.writes)))
            elif cname == "empty_sqlite_file":
                # an empty file is a valid (empty) SQLite database without a version table: an error, file unchanged
                out.append(ob("database._get_db#%s.raises_file_unchanged[%s]" % (cname, tag), kind == "raise" and unchanged,
                              "outcome %s %s; writes %s" % (kind, rest and rest[0], w.writes)))
            else:
                out.append(ob("database._get_db#%s.raises_file_unchanged[%s]" % (cname, tag), kind == "raise" and unchanged,
                              "outcome %s %s; writes %s" % (kind, rest and rest[0], w.writes)))
        # ---- create-only / open-only entry points ---------------------------------------------------
        creator = "create_channel_db" if name == "channel" else "create_usage_db"
        for cname, st in pre_classes(name, ver):
            (kind, *rest), w = run(src, creator, [P], {P: st})
            ok = kind == "raise" and rest[0].cls == "DBAlreadyExists" and not w.writes
            out.append(ob("database.%s#exists_%s.raises_DBAlreadyExists_untouched" % (creator, cname), ok,
                          "outcome %s %s writes %s" % (kind, rest and rest[0], w.writes)))
        (kind, *rest), w = run(src, creator, [P], {})
        out.append(ob("database.%s#absent.creates_complete" % creator, kind == "return" and complete(w.get(P), name, ver), ""))
    (kind, *rest), w = run(src, "open_existing_db", [P], {})
    out.append(ob("database.open_existing_db#absent.raises_DBDoesntExist.no_create",
                  kind == "raise" and rest[0].cls == "DBDoesntExist" and not w.writes and w.get(P).kind == "absent",
                  "outcome %s writes %s" % (kind, w.writes)))
    for name, ver in targets(src):
        for cname, st in pre_classes(name, ver):
            (kind, *rest), w = run(src, "open_existing_db", [P], {P: st})
            out.append(ob("database.open_existing_db#exists_%s.only_reads[%s]" % (cname, name), not w.writes, "writes %s" % w.writes))
    return out


def c20(timeout_ms=0):
    src = Source()
    name, ver = "usage", src.module_constants("database")["USAGEDB_TARGET_VERSION"]
    out = []
    v1 = FState("db", fresh_schema(name, 1), (1,), rows="R-original")
    backup = Path("fmt", P, ("%s-backup-v%d", 1))
    (kind, *rest), w = run(src, "_get_db", [P, name, ver], {P: v1})
    fin = w.get(P)
    out.append(ob("database._get_db#upgrade.exit.schema_eq_fresh", kind == "return" and fin.schema == fresh_schema(name, ver),
                  "outcome %s; extra %s missing %s" % (kind, sorted(fin.schema - fresh_schema(name, ver))[:2],
                                                         sorted(fresh_schema(name, ver) - fin.schema)[:2])))
    out.append(ob("database._get_db#upgrade.exit.version", kind == "return" and fin.version == (ver,), repr(fin)))
    out.append(ob("database._get_db#upgrade.exit.records_intact", kind == "return" and fin.rows == "R-original", repr(fin)))
    # the backup is a byte copy of the original, taken before the first write to the database file
    first_write = next((i for i, (what, p) in enumerate(w.writes) if p == P), None)
    copy_at = next((i for i, (what, p) in enumerate(w.writes) if p == backup), None)
    bk = w.get(backup)
    out.append(ob("database._get_db#upgrade.backup_is_original", copy_at is not None and (first_write is None or copy_at < first_write)
                  and bk.bytes_id == v1.bytes_id, "writes %s; backup %r" % (w.writes, bk)))
    # ... also when something already sits at the backup path (a stale copy of an earlier upgrade, or anything else)
    for sname, stale in (("stale_db", FState("db", fresh_schema(name, 1), (1,), rows="R-stale")), ("junk", FState("junk"))):
        (k3, *r3), w3 = run(src, "_get_db", [P, name, ver], {P: v1, backup: stale})
        out.append(ob("database._get_db#upgrade.backup_is_original[%s_at_backup_path]" % sname,
                      k3 == "return" and w3.get(backup).bytes_id == v1.bytes_id and w3.get(P).rows == "R-original",
                      "outcome %s; backup %r" % (k3, w3.get(backup))))
    # retry from every crash point reaches the same final state, and the backup is still the original
    nsteps = len(w.trace)
    bad = []
    for k in range(1, nsteps + 1):
        (kk, *_), wk = run(src, "_get_db", [P, name, ver], {P: v1}, crash_after=k)
        (k2, *r2), w2 = run(src, "_get_db", [P, name, ver], wk.fs)
        f2 = w2.get(P)
        okk = (k2 == "return" and f2.schema == fresh_schema(name, ver) and f2.version == (ver,) and f2.rows == "R-original"
               and w2.get(backup).bytes_id == v1.bytes_id)
        if not okk:
            bad.append("crash after step %d (%s): retry %s %s; backup bytes %s" % (
                k, wk.trace[-1][0], k2, (str(r2[0]) if r2 else ""), "original" if w2.get(backup).bytes_id == v1.bytes_id else "NOT original"))
    out.append(ob("lemma.C20.retry", not bad and nsteps >= 2, "%d steps; %s" % (nsteps, bad[:4])))
    # no record is lost at any crash point: the old records are in the database file or in the backup
    lost = []
    for k, (what, snap) in enumerate(w.trace):
        if snap.get(P, ABSENT).rows != "R-original":
            lost.append((k, what))
    out.append(ob("database._get_db#upgrade.crash.records_never_lost", not lost, str(lost[:3])))
    # upgrade statements name no pre-existing data table
    script = fsx.load_script("upgrade-%s-to-v%d.sql" % (name, ver))
    data_tables = fsx.table_names(fresh_schema(name, 1)) - {"version"}
    import re
    touched = [st for st in fsx.split_statements(script)
               if re.match(r"(?i)\s*(drop|alter|delete|update|insert|replace)", st) and any(re.search(r"\b%s\b" % t, st.replace("`", "")) for t in data_tables)]
    out.append(ob("lemma.C20.frame.user_rows", not touched, str(touched)))
    return out
