"""C11: every client-visible effect of an event is a function of (database, the acting connection's
fields, Sub, the command, oracles, configuration) and of nothing else in memory.

Decided syntactically on the z3 terms of the event handlers' postconditions: a clause about the
channel tables, the outboxes or connection fields must not mention a registry symbol of the
pre-state (`Server._apps`, `AppNamespace._mailboxes`, `Mailbox._listeners`, the allocation map, or
a field of a Mailbox/AppNamespace object). Clauses that *are* about the registries (heap effects and
heap invariants) are exempt and listed. The handlers are verified against these very clauses (Tier
A), so a handler that consults a cache of database facts cannot satisfy them."""
import z3
from pvc.zs import *  # noqa
from pvc.state import State
from pvc.contract import REGISTRY, Ctx, make_symbolic
from pvc.symex import make_symbolic_named
from pvc import heap as H

EVENTS = ["handle_ping", "handle_bind", "handle_list", "handle_allocate", "handle_claim", "handle_release",
          "handle_open", "handle_add", "handle_close", "onOpen", "onMessage"]
REGISTRY_SYMS = ("Server._apps", "AppNamespace._mailboxes", "Mailbox._listeners", "alloc@", "Mailbox._app",
                 "Mailbox._app_id", "Mailbox._mailbox_id")
# clauses whose subject is the registries / heap invariants themselves
EXEMPT = ("preserves.", "effect.registered", "effect.registry_wf", "effect.returns_registered", "effect.one_object_per_id",
          "bound_to_registered", "one_namespace_per_app", "Sub_gains_self", "exit.clean")


def syms(t, memo):
    i = t.get_id()
    if i in memo:
        return memo[i]
    out = set()
    memo[i] = out
    if z3.is_quantifier(t):
        out |= syms(t.body(), memo)
    elif z3.is_app(t):
        if t.decl().kind() == z3.Z3_OP_UNINTERPRETED:
            out.add(t.decl().name())
        for c in t.children():
            out |= syms(c, memo)
    return out


def atoms(t, guard):
    """(guard symbols, atomic conjunct) pairs of a formula: And / Implies / If / ForAll are opened up"""
    if z3.is_quantifier(t):
        yield from atoms(t.body(), guard)
    elif z3.is_and(t):
        for c in t.children():
            yield from atoms(c, guard)
    elif z3.is_implies(t):
        a, b = t.children()
        yield from atoms(b, guard | syms(a, {}))
    elif z3.is_app(t) and t.decl().kind() == z3.Z3_OP_ITE and z3.is_bool(t):
        c, x, y = t.children()
        g = guard | syms(c, {})
        yield from atoms(x, g)
        yield from atoms(y, g)
    else:
        yield guard, t


def is_pre_registry(x):
    return x.endswith("@dep0") and (x.startswith(("Server._apps", "AppNamespace._mailboxes", "Mailbox._listeners")) or x == "alloc@dep0")


def is_post_registry(x):
    return x.endswith("@dep1") and (x.startswith(("Server._apps", "AppNamespace.", "Mailbox.")) or x == "alloc@dep1")


def is_post_visible(x):
    """stored rows, frames, and the scalar state of connections (object references are not observable)"""
    if not x.endswith("@dep1"):
        return False
    if x.startswith(("WebSocketServer._app@", "WebSocketServer._mailbox@")):
        return False
    return x.startswith(("ch.", "out_len", "out_buf", "WebSocketServer.", "np_next"))


def registry_free(src=None):
    out = []
    for h in EVENTS:
        con = REGISTRY["server_websocket.WebSocketServer." + h]
        me = Const("dep.self", INT)
        args = {}
        for n, sp in con.params.items():
            args[n] = make_symbolic_named(sp, "dep." + n)[0]
        S0 = State.symbolic("dep0")
        S1 = State.symbolic("dep1")
        c = Ctx(S0, S1, args, me, "WebSocketServer")
        items = [(it[0], it[1]) for it in con.eval_ensures(c)]
        for (exc, name, when, posts, fields, tags, iff) in con.eval_raises(c):
            items += [("raises.%s.%s" % (name, pn), t) for pn, t in posts]
        bad, checked = [], 0
        for name, term in items:
            if "preserves." in name:
                continue        # invariants are re-established, not effects
            for guard, atom in atoms(term, set()):
                ss = syms(atom, {})
                if not any(is_post_visible(x) for x in ss):
                    continue    # not about what clients can observe / what is stored
                if any(is_post_registry(x) for x in ss):
                    continue    # a statement about the registries after the event (its keys may be visible data)
                checked += 1
                hit = sorted(x for x in (ss | guard) if is_pre_registry(x))
                if hit:
                    bad.append((name, hit, str(atom)[:120].replace("\n", " ")))
        out.append(("census.depends.registry_free." + h, not bad and checked > 0,
                    "%d client-visible conjuncts checked; depending on registry contents: %s" % (checked, bad[:3])))
    return out


def canary():
    """a postcondition that lets a frame count depend on a listener set of the pre-state must be flagged"""
    S0, S1 = State.symbolic("dep0"), State.symbolic("dep1")
    c, M = Const("dep.c", INT), Const("dep.M", INT)
    bad = S1.out_len[c] == S0.out_len[c] + If(S0.heap["Mailbox._listeners"][M][c], 1, 0)
    flagged = False
    for guard, atom in atoms(bad, set()):
        ss = syms(atom, {})
        if any(is_post_visible(x) for x in ss) and not any(is_post_registry(x) for x in ss) \
                and any(is_pre_registry(x) for x in (ss | guard)):
            flagged = True
    return [("canary.C11.registry_dependence_is_flagged", not flagged)]


# ---------------------------------------------------------------------------------------------------
# C18: nothing but the `list` answer and the usage database depends on the configuration
# ---------------------------------------------------------------------------------------------------
CFG_SYMS = ("cfg.usage_db", "cfg.blur", "cfg.blur.isnone", "cfg.allow_list", "cfg.log_requests")
CONFIG_EXEMPT = {"server_websocket.WebSocketServer.handle_list": ("answer",),
                 "server.AppNamespace.get_nameplate_ids": ("gated",)}


def is_post_channel_visible(x):
    if not x.endswith("@dep1"):
        return False
    return x.startswith(("ch.", "out_len", "out_buf", "WebSocketServer.", "np_next", "in_tx.ch", "Server._apps",
                         "AppNamespace.", "Mailbox.", "alloc"))


def config_free(src=None):
    """for every function under contract: no conjunct of a postcondition that speaks about the channel
    tables, the outboxes, connection state or the registries mentions a configuration symbol"""
    out = []
    total = 0
    offenders = []
    for qual, con in sorted(REGISTRY.items()):
        if not hasattr(con, "tags"):
            continue
        me = Const("dep.self", INT)
        args = {}
        try:
            for n, sp in con.params.items():
                args[n] = make_symbolic_named(sp, "dep." + n)[0]
            for n, sp in getattr(con, "free", {}).items():
                if sp != "the_server":
                    args[n] = make_symbolic_named(sp, "dep.free." + n)[0]
        except Exception:
            continue
        S0, S1 = State.symbolic("dep0"), State.symbolic("dep1")
        res = None
        if con.result:
            try:
                res = make_symbolic(con.result, "dep.res")[0]
            except Exception:
                res = None
        c = Ctx(S0, S1, args, me, con.cls, result=res)
        try:
            items = [(it[0], it[1]) for it in con.eval_ensures(c)]
            for (exc, name, when, posts, fields, tags, iff) in con.eval_raises(c):
                items.append(("raises.%s.when" % name, when))
                items += [("raises.%s.%s" % (name, pn), t) for pn, t in posts]
        except Exception:
            continue        # clauses that need ghost results of a concrete path are covered through their callers
        exempt = CONFIG_EXEMPT.get(qual, ())
        for name, term in items:
            if any(name == e or name.endswith("." + e) for e in exempt):
                continue
            for guard, atom in atoms(term, set()):
                ss = syms(atom, {})
                if not any(is_post_channel_visible(x) for x in ss) and not name.endswith(".when"):
                    continue
                total += 1
                hit = sorted(x for x in (ss | guard) if x in CFG_SYMS)
                if hit:
                    offenders.append((qual.split(".", 1)[1], name, hit))
    out.append(("census.depends.config_free", not offenders and total > 500,
                "%d conjuncts about channel tables / outboxes / connection state / registries checked; mentioning the configuration: %s"
                % (total, offenders[:4])))
    return out


def canary_config():
    """a channel-table effect guarded by `usage_db` must be flagged"""
    S0, S1 = State.symbolic("dep0"), State.symbolic("dep1")
    bad = If(H.CFG_USAGE, S1.t("ch.mailboxes").live == S0.t("ch.mailboxes").live, BoolVal(True))
    flagged = False
    for guard, atom in atoms(bad, set()):
        ss = syms(atom, {})
        if any(is_post_channel_visible(x) for x in ss) and any(x in CFG_SYMS for x in (ss | guard)):
            flagged = True
    return [("canary.C18.config_dependence_is_flagged", not flagged)]
