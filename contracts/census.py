"""Structural (census) obligations decided on the ASTs of the whole package:
the set of call sites / statements of a given kind is exactly the listed one."""
import ast
import os
import re
from pvc.state import PKG, parse_sql
from pvc.values import Unsupported


def package_functions():
    """(module, qualname, FunctionDef) for every function of the package (tests excluded)"""
    out = []
    for fn in sorted(os.listdir(PKG)):
        if not fn.endswith(".py") or fn.startswith("_version"):
            continue
        mod = fn[:-3]
        tree = ast.parse(open(os.path.join(PKG, fn)).read())

        def walk(body, prefix):
            for n in body:
                if isinstance(n, ast.ClassDef):
                    walk(n.body, prefix + "." + n.name)
                elif isinstance(n, ast.FunctionDef):
                    out.append((mod, prefix + "." + n.name, n))
        walk(tree.body, mod)
    return out


def sql_statements():
    """(qualname, db, parsed statement, lineno) for every execute() with constant SQL"""
    out = []
    for mod, qual, fd in package_functions():
        usage_alias = set()
        for n in ast.walk(fd):
            if isinstance(n, ast.Assign) and isinstance(n.targets[0], ast.Name) and "_usage_db" in ast.unparse(n.value):
                usage_alias.add(n.targets[0].id)
        consts = {}
        for n in ast.walk(fd):
            if isinstance(n, ast.Assign) and isinstance(n.targets[0], ast.Name) and isinstance(n.value, ast.Constant) \
                    and isinstance(n.value.value, str):
                consts[n.targets[0].id] = n.value.value
        for n in ast.walk(fd):
            if isinstance(n, ast.Call) and isinstance(n.func, ast.Attribute) and n.func.attr in ("execute", "executescript"):
                recv = ast.unparse(n.func.value)
                db = "us" if ("usage" in recv or recv in usage_alias) else "ch"
                a0 = n.args[0] if n.args else None
                text = None
                if isinstance(a0, ast.Constant) and isinstance(a0.value, str):
                    text = a0.value
                elif isinstance(a0, ast.Name) and a0.id in consts:
                    text = consts[a0.id]
                out.append((qual, db, text, n.lineno, n.func.attr))
    return out


def call_sites(method):
    out = set()
    for mod, qual, fd in package_functions():
        for n in ast.walk(fd):
            if isinstance(n, ast.Call) and isinstance(n.func, ast.Attribute) and n.func.attr == method:
                out.add(qual)
            if isinstance(n, ast.Attribute) and n.attr == method and not isinstance(getattr(n, "ctx", None), ast.Store):
                out.add(qual)
    return out


def _set_eq(name, got, want):
    ok = set(got) == set(want)
    return [(name, ok, "found %s, expected %s" % (sorted(got), sorted(want)))]


def stmts_where(kind, table, db):
    got = set()
    for qual, d, text, line, meth in sql_statements():
        if text is None or meth != "execute" or d != db:
            continue
        t = " ".join(text.split())
        if re.match(r"^%s\b.*`%s`" % (kind, table), t) and re.search(r"(FROM|INTO|UPDATE) `%s`" % table, t):
            got.add(qual)
    return got


def get_nameplate_ids_callers(src):
    """C04/C18: the listing-gated accessor is used by `list` only"""
    return _set_eq("census.get_nameplate_ids_callers", call_sites("get_nameplate_ids"),
                   {"server_websocket.WebSocketServer.handle_list"})


def allow_list_readers(src):
    got = set()
    for mod, qual, fd in package_functions():
        for n in ast.walk(fd):
            if isinstance(n, ast.Attribute) and n.attr == "_allow_list" and isinstance(n.ctx, ast.Load):
                got.add(qual)
    return _set_eq("census.reads_allow_list", got,
                   {"server.AppNamespace.get_nameplate_ids", "server.Server.get_app", "server.Server.startService"})


def retirement_sites(src):
    """C15: nameplates / mailboxes rows of the channel DB are deleted only here"""
    out = []
    out += _set_eq("census.retirement_sites.nameplates", stmts_where("DELETE", "nameplates", "ch"),
                   {"server.AppNamespace.release_nameplate", "server.Mailbox.close", "server.AppNamespace.prune"})
    out += _set_eq("census.retirement_sites.mailboxes", stmts_where("DELETE", "mailboxes", "ch"),
                   {"server.Mailbox.close", "server.AppNamespace.prune"})
    return out


def usage_timestamp_writers(src):
    """C16: the statements writing client-activity timestamps to the usage DB, and their callers"""
    out = []
    out += _set_eq("census.usage_writers.nameplates", stmts_where("INSERT", "nameplates", "us"),
                   {"server.AppNamespace._summarize_nameplate_and_store"})
    out += _set_eq("census.usage_writers.mailboxes", stmts_where("INSERT", "mailboxes", "us"),
                   {"server.AppNamespace._summarize_mailbox_and_store"})
    out += _set_eq("census.usage_writers.client_versions", stmts_where("INSERT", "client_versions", "us"),
                   {"server.AppNamespace.log_client_version"})
    upd = set()
    for t in ("nameplates", "mailboxes", "client_versions"):
        upd |= stmts_where("UPDATE", t, "us")
    out += _set_eq("census.usage_writers.no_updates", upd, set())
    out += _set_eq("census.callers._summarize_nameplate_and_store", call_sites("_summarize_nameplate_and_store"),
                   {"server.AppNamespace.release_nameplate", "server.Mailbox.close", "server.AppNamespace.prune"})
    out += _set_eq("census.callers._summarize_mailbox_and_store", call_sites("_summarize_mailbox_and_store"),
                   {"server.Mailbox.close", "server.AppNamespace.prune"})
    out += _set_eq("census.callers.log_client_version", call_sites("log_client_version"),
                   {"server_websocket.WebSocketServer.handle_bind"})
    # every SQL statement of the package is a constant inside the grammar
    bad = [(q, l) for q, d, text, l, m in sql_statements() if text is None and m == "execute"]
    out.append(("census.all_sql_constant", not bad, "non-constant SQL at %s" % bad))
    return out


def messages_writers(src):
    """C01: the statements that mention `messages`"""
    out = []
    out += _set_eq("census.messages.insert", stmts_where("INSERT", "messages", "ch"), {"server.Mailbox._add_message"})
    out += _set_eq("census.messages.delete", stmts_where("DELETE", "messages", "ch"),
                   {"server.Mailbox.close", "server.AppNamespace.prune"})
    out += _set_eq("census.messages.update", stmts_where("UPDATE", "messages", "ch"), set())
    out += _set_eq("census.messages.select", stmts_where("SELECT", "messages", "ch"),
                   {"server.Mailbox.get_messages", "server.Server.get_all_apps"})
    return out


def pragmas(src):
    """C09/C10: the only statements database._initialize_db_connection issues are the two foreign-key
    PRAGMAs (journal mode and synchronous stay at SQLite's defaults, A8), and foreign keys are enabled"""
    got = []
    for qual, db, text, line, meth in sql_statements():
        if qual.startswith("database.") and text is not None and "PRAGMA" in text.upper():
            got.append((qual, " ".join(text.split())))
    want = [("database._initialize_db_connection", "PRAGMA foreign_keys = ON"),
            ("database._initialize_db_connection", "PRAGMA foreign_key_check")]
    out = [("census.pragmas", sorted(got) == sorted(want), "found %s" % got)]
    bad = [(q, t) for q, db, t, l, m in sql_statements() if t is not None and "PRAGMA" in t.upper() and not q.startswith("database.")]
    out.append(("census.no_pragmas_elsewhere", not bad, "found %s" % bad))
    return out


def send_is_only_emitter(src):
    """C09/C17: frames reach a client only through WebSocketServer.send (which adds type and server_tx and
    requires a clean transaction state)"""
    return _set_eq("census.sendMessage_callers", call_sites("sendMessage"), {"server_websocket.WebSocketServer.send"})


def heap_fields(src):
    """C11/C02/C03: the in-memory state of the server is exactly what the heap model knows - the
    attributes the constructors create (a new cache of database facts would not be modelled)"""
    from pvc import heap as H
    out = []
    for cls, mod in (("Mailbox", "server"), ("AppNamespace", "server"), ("Server", "server"),
                     ("WebSocketServer", "server_websocket")):
        fd = src.func("%s.%s.__init__" % (mod, cls))
        got = set()
        for n in ast.walk(fd):
            if isinstance(n, ast.Attribute) and isinstance(n.ctx, ast.Store) and isinstance(n.value, ast.Name) and n.value.id == "self":
                got.add(n.attr)
        want = (set(H.FIELDS.get(cls, {})) | H.CONFIG_FIELDS) - {"alive"}
        extra = got - want
        out.append(("census.heap_fields." + cls, not extra, "attributes created by %s.__init__ outside the heap model: %s" % (cls, sorted(extra))))
    # no attribute of these objects is created elsewhere
    created = set()
    for mod, qual, fd in package_functions():
        if qual.endswith(".__init__"):
            continue
        for n in ast.walk(fd):
            if isinstance(n, ast.Attribute) and isinstance(n.ctx, ast.Store) and isinstance(n.value, ast.Name) and n.value.id == "self":
                cls = qual.split(".")[1] if qual.count(".") >= 2 else None
                if cls in H.FIELDS and n.attr not in H.FIELDS[cls] and n.attr not in H.CONFIG_FIELDS and n.attr != "_reactor":
                    created.add("%s.%s" % (qual, n.attr))
    out.append(("census.heap_fields.no_late_attributes", not created, "attributes set outside constructors: %s" % sorted(created)))
    return out


def make_server_welcome(src):
    """C17: the welcome dict is built from exactly the configured notices (motd iff given; current_cli_version
    and error iff truthy) and is the one handed to Server, whose get_welcome returns it (contract)"""
    fd = src.func("server.make_server")
    found = {}
    for n in ast.walk(fd):
        if isinstance(n, ast.If) and len(n.body) >= 1:
            for st in n.body:
                if isinstance(st, ast.Assign) and isinstance(st.targets[0], ast.Subscript) \
                        and ast.unparse(st.targets[0].value) == "welcome":
                    found[ast.unparse(st.targets[0].slice)] = (ast.unparse(n.test), ast.unparse(st.value))
    want = {"'motd'": ("welcome_motd is not None", "str(welcome_motd)"),
            "'current_cli_version'": ("advertise_version", "advertise_version"),
            "'error'": ("signal_error", "signal_error")}
    out = [("census.make_server.welcome_keys", found == want, "found %s" % found)]
    other = [ast.unparse(n) for n in ast.walk(fd) if isinstance(n, ast.Assign) and isinstance(n.targets[0], ast.Subscript)
             and ast.unparse(n.targets[0].value) == "welcome" and ast.unparse(n.targets[0].slice) not in want]
    out.append(("census.make_server.no_other_keys", not other, str(other)))
    calls = [n for n in ast.walk(fd) if isinstance(n, ast.Call) and ast.unparse(n.func) == "Server"]
    kw = {k.arg: ast.unparse(k.value) for k in calls[0].keywords} if len(calls) == 1 else {}
    out.append(("census.make_server.passes_welcome", kw.get("welcome") == "welcome" and kw.get("blur_usage") == "blur_usage"
                and kw.get("usage_db") == "usage_db" and kw.get("allow_list") == "allow_list", str(kw)))
    init = src.func("server.Server.__init__")
    assigns = {ast.unparse(n.targets[0]): ast.unparse(n.value) for n in ast.walk(init) if isinstance(n, ast.Assign)}
    ok = all(assigns.get("self._" + k) == k for k in ("db", "allow_list", "welcome", "blur_usage", "usage_db")) \
        and assigns.get("self._apps") == "{}" and assigns.get("self._log_requests") == "blur_usage is None"
    out.append(("census.Server_init.wiring", ok, str(assigns)))
    return out


STATE_API = {"prune_all_apps", "prune", "claim_nameplate", "release_nameplate", "open_mailbox", "allocate_nameplate", "add_message",
             "_add_message", "_add_mailbox", "_touch", "execute", "executescript", "executemany", "commit",
             "_summarize_nameplate_and_store", "_summarize_mailbox_and_store", "log_client_version", "dump_stats", "free_mailbox"}


def event_sources(src):
    """Every property's induction is over the events 'a handler runs' and 'the sweep runs'.  Code outside the functions
    under contract that calls the state-changing API or talks to a database would be a further event source (e.g. a
    prune at start-up): there is none besides database.py's set-up functions and the timer closure of makeService."""
    from pvc.contract import REGISTRY
    got = set()
    for mod, qual, fd in package_functions():
        if qual in REGISTRY:
            continue
        if any(isinstance(n, ast.Call) and isinstance(n.func, ast.Attribute) and n.func.attr in STATE_API for n in ast.walk(fd)):
            got.add(qual)
    want = {"database._get_db", "database._initialize_db_connection", "database._initialize_db_schema", "server_tap.makeService"}
    out = _set_eq("census.event_sources", got, want)
    # ... and in makeService those calls sit inside the timer closure only
    fd = src.func("server_tap.makeService")
    outside = [ast.unparse(n.func) for st in fd.body if not isinstance(st, ast.FunctionDef) for n in ast.walk(st)
               if isinstance(n, ast.Call) and isinstance(n.func, ast.Attribute) and n.func.attr in STATE_API]
    out.append(("census.event_sources.makeService_body", not outside, "state-changing calls outside `expire`: %s" % outside))
    return out


def blur_option(src):
    """C16 (A16): the value of --blur-usage reaches the server as the integer the operator wrote (None when the option
    is absent); make_server_wiring covers the way from the option dictionary to the Server"""
    try:
        fd = src.func("server_tap.Options.opt_blur_usage")
    except Exception as e:
        return [("census.blur_option", False, str(e))]
    body = [st for st in fd.body if not (isinstance(st, ast.Expr) and isinstance(st.value, ast.Constant))]
    got = [ast.unparse(st).replace("'", '"') for st in body]
    return [("census.blur_option", got == ['self["blur-usage"] = int(arg)'], "opt_blur_usage body: %s" % got)]
