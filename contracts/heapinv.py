"""Global heap invariants (DESIGN 6, H1-H6) over all connections."""
from pvc.zs import *  # noqa
from pvc import heap as H
from .appnamespace import hp, registry_wf, MB


def conn(S, f):
    return S.heap["WebSocketServer." + f]


def subscribed(S, c, M):
    """alive connection c holds Mailbox object M and is listening"""
    return And(conn(S, "alive")[c], conn(S, "_mailbox")[c] == M, M != 0, conn(S, "_listening")[c])


def GH5(S):
    """a Mailbox object's listener set is exactly the alive, listening connections holding it
    (two implications, each with a trigger the solver meets naturally)"""
    ls = S.heap["Mailbox._listeners"]
    cm = conn(S, "_mailbox")
    return And(
        FA([INT, INT], lambda M, c: Implies(And(M != 0, ls[M][c]), subscribed(S, c, M)), pats=lambda M, c: [ls[M][c]]),
        FA([INT], lambda c: Implies(subscribed(S, c, cm[c]), ls[cm[c]][c]), pats=lambda c: [cm[c]]))


def holder_ok(S, c):
    """H4 for one connection: the Mailbox object it is subscribed to is the registered one of
    its namespace and its mailbox row is live"""
    M = conn(S, "_mailbox")[c]
    app = conn(S, "_app")[c]
    a = hp(S, "AppNamespace._app_id")[app]
    m = hp(S, "Mailbox._mailbox_id")[M]
    return And(app != 0, S.alloc[M], hp(S, "Mailbox._app")[M] == app, hp(S, "Mailbox._app_id")[M] == a,
               hp(S, "AppNamespace._mailboxes")[app][m] == M,
               hp(S, "Server._apps")[H.SERVER][a] == app,          # H3: its namespace is the registered one
               S.t(MB).exists(lambda r: And(r.app_id == a, r.id == m)))


def GH4(S):
    return FA([INT], lambda c: Implies(subscribed(S, c, conn(S, "_mailbox")[c]), holder_ok(S, c)),
              pats=lambda c: [conn(S, "_mailbox")[c]])
