"""Contracts of server.AppNamespace (DESIGN A.2)."""
import z3
from pvc.zs import *  # noqa
from pvc.values import *  # noqa
from pvc.contract import contract
from pvc.state import is_insert, is_update, is_delete, tbl_eq, same_row, Row
from pvc import heap as H
from . import invariants as I
from . import specs

MS, MB, MSG, NP, NS = "ch.mailbox_sides", "ch.mailboxes", "ch.messages", "ch.nameplates", "ch.nameplate_sides"
UNP, UMB, UCV, UCUR = "us.nameplates", "us.mailboxes", "us.client_versions", "us.current"


def usage_fields(u):
    f = u.fields
    w = f["waiting_time"]
    if isinstance(w, VOpt):
        wn, wt = w.is_none, to_term(w.val, "real") if not (isinstance(w.val, VConst) and w.val.py is None) else RealVal(0)
    elif isinstance(w, VConst) and w.py is None:
        wn, wt = BoolVal(True), RealVal(0)
    else:
        wn, wt = BoolVal(False), to_term(w, "real")
    return (to_term(f["started"], "real"), wn, wt, to_term(f["total_time"], "real"), to_term(f["result"], "str"))


# ------------------------------------------------ _summarize_nameplate_usage
c = contract("server.AppNamespace._summarize_nameplate_usage", cls="AppNamespace",
             params={"side_rows": "rowlist:ch.nameplate_sides", "delete_time": "real", "pruned": "bool"},
             result="usage", modifies=[], tags=["C15", "C16", "C17"])


@c.requires
def _(c):
    yield "at_least_one_side", c.a.side_rows.n >= 1


def np_summary_spec(rows, t, pruned, started, wn, w, total, result):
    member = rows.member
    added = lambda r: rows.tbl.cols["added"][r]
    return [("times", specs.times_spec(member, added, t, started, wn, w, total), ["C15", "C16"]),
            ("result", result == specs.np_result(member, pruned), ["C15"])]


@c.ensures
def _(c):
    started, wn, w, total, result = usage_fields(c.result)
    for n, t, tags in np_summary_spec(c.a.side_rows, c.a.t("delete_time"), c.a.t("pruned"), started, wn, w, total, result):
        yield "matches_spec." + n, t, tags


# ------------------------------------------------ _summarize_mailbox
c = contract("server.AppNamespace._summarize_mailbox", cls="AppNamespace",
             params={"side_rows": "rowlist:ch.mailbox_sides", "delete_time": "real", "pruned": "bool"},
             result="usage", modifies=[], tags=["C15", "C16", "C17"])


@c.requires
def _(c):
    yield "at_least_one_side", c.a.side_rows.n >= 1


def mb_summary_spec(rows, t, pruned, started, wn, w, total, result):
    member = rows.member
    tbl = rows.tbl
    added = lambda r: tbl.cols["added"][r]
    mood_is = lambda r, s: And(Not(tbl.nulls["mood"][r]), tbl.cols["mood"][r] == s)
    return [("times", specs.times_spec(member, added, t, started, wn, w, total), ["C15", "C16"]),
            ("result", result == specs.mb_result(member, mood_is, pruned), ["C15"])]


@c.ensures
def _(c):
    started, wn, w, total, result = usage_fields(c.result)
    for n, t, tags in mb_summary_spec(c.a.side_rows, c.a.t("delete_time"), c.a.t("pruned"), started, wn, w, total, result):
        yield "matches_spec." + n, t, tags
