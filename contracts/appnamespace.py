"""Contracts of server.AppNamespace (DESIGN A.2)."""
import z3
from pvc.zs import *  # noqa
from pvc.values import *  # noqa
from pvc.contract import contract
from pvc.state import is_insert, is_update, is_delete, tbl_eq, same_row, Row
from pvc import heap as H
from . import invariants as I
from . import specs

MS, MB, MSG, NP, NS = "ch.mailbox_sides", "ch.mailboxes", "ch.messages", "ch.nameplates", "ch.nameplate_sides"
UNP, UMB, UCV, UCUR = "us.nameplates", "us.mailboxes", "us.client_versions", "us.current"


def usage_fields(u):
    f = u.fields
    w = f["waiting_time"]
    if isinstance(w, VOpt):
        wn, wt = w.is_none, to_term(w.val, "real") if not (isinstance(w.val, VConst) and w.val.py is None) else RealVal(0)
    elif isinstance(w, VConst) and w.py is None:
        wn, wt = BoolVal(True), RealVal(0)
    else:
        wn, wt = BoolVal(False), to_term(w, "real")
    return (to_term(f["started"], "real"), wn, wt, to_term(f["total_time"], "real"), to_term(f["result"], "str"))


# ------------------------------------------------ _summarize_nameplate_usage
c = contract("server.AppNamespace._summarize_nameplate_usage", cls="AppNamespace",
             params={"side_rows": "rowlist:ch.nameplate_sides", "delete_time": "real", "pruned": "bool"},
             result="usage", modifies=[], tags=["C15", "C16", "C17"])


@c.requires
def _(c):
    yield "at_least_one_side", c.a.side_rows.n >= 1


def np_summary_spec(rows, t, pruned, started, wn, w, total, result, member=None, added=None):
    member = member or rows.member
    added = added or (lambda r: rows.tbl.cols["added"][r])
    return [("times", specs.times_spec(member, added, t, started, wn, w, total), ["C15", "C16"]),
            ("result", result == specs.np_result(member, pruned), ["C15"])]


@c.ensures
def _(c):
    started, wn, w, total, result = usage_fields(c.result)
    for n, t, tags in np_summary_spec(c.a.side_rows, c.a.t("delete_time"), c.a.t("pruned"), started, wn, w, total, result):
        yield "matches_spec." + n, t, tags


# ------------------------------------------------ _summarize_mailbox
c = contract("server.AppNamespace._summarize_mailbox", cls="AppNamespace",
             params={"side_rows": "rowlist:ch.mailbox_sides", "delete_time": "real", "pruned": "bool"},
             result="usage", modifies=[], tags=["C15", "C16", "C17"])


@c.requires
def _(c):
    yield "at_least_one_side", c.a.side_rows.n >= 1


def mb_summary_spec(rows, t, pruned, started, wn, w, total, result, member=None, added=None, mood_is=None):
    if rows is not None:
        tbl = rows.tbl
        member = rows.member
        added = lambda r: tbl.cols["added"][r]
        mood_is = lambda r, s: And(Not(tbl.nulls["mood"][r]), tbl.cols["mood"][r] == s)
    return [("times", specs.times_spec(member, added, t, started, wn, w, total), ["C15", "C16"]),
            ("result", result == specs.mb_result(member, mood_is, pruned), ["C15"])]


@c.ensures
def _(c):
    started, wn, w, total, result = usage_fields(c.result)
    for n, t, tags in mb_summary_spec(c.a.side_rows, c.a.t("delete_time"), c.a.t("pruned"), started, wn, w, total, result):
        yield "matches_spec." + n, t, tags


def row_usage(row):
    """(started, waiting_isnone, waiting, total, result) of a usage-table row"""
    return (row.started, row.null("waiting_time"), row.waiting_time, row.total_time, row.result)


def unchanged(c, comps):
    from pvc.state import comp_eq
    return conj([comp_eq(k, c.pre.get_comp(k), c.post.get_comp(k)) for k in comps])


# ------------------------------------------------ _summarize_*_and_store
c = contract("server.AppNamespace._summarize_nameplate_and_store", cls="AppNamespace",
             params={"side_rows": "rowlist:ch.nameplate_sides", "delete_time": "real", "pruned": "bool"},
             modifies=[UNP, "in_tx.us"], tags=["C15", "C16", "C17"])


@c.requires
def _(c):
    yield "usage_db_present", H.CFG_USAGE
    yield "at_least_one_side", c.a.side_rows.n >= 1


@c.ensures
def _(c):
    a = c.sf("_app_id")

    def P(row):
        return And(row.app_id == a, *[t for _, t, _ in np_summary_spec(
            c.a.side_rows, c.a.t("delete_time"), c.a.t("pruned"), *row_usage(row))])
    from pvc.state import is_insert_where
    yield "one_usage_row", is_insert_where(c.pre.t(UNP), c.post.t(UNP), P), ["C15", "C16"]
    yield "in_tx", c.post.in_tx["us"], ["C09"]


c = contract("server.AppNamespace._summarize_mailbox_and_store", cls="AppNamespace",
             params={"for_nameplate": "bool", "side_rows": "rowlist:ch.mailbox_sides", "delete_time": "real",
                     "pruned": "bool"},
             modifies=[UMB, "in_tx.us"], tags=["C15", "C16", "C17"])


@c.requires
def _(c):
    yield "usage_db_present", H.CFG_USAGE
    yield "at_least_one_side", c.a.side_rows.n >= 1


@c.ensures
def _(c):
    a = c.sf("_app_id")

    def P(row):
        return And(row.app_id == a, row.for_nameplate == c.a.t("for_nameplate"),
                   *[t for _, t, _ in mb_summary_spec(c.a.side_rows, c.a.t("delete_time"), c.a.t("pruned"),
                                                      *row_usage(row))])
    from pvc.state import is_insert_where
    yield "one_usage_row", is_insert_where(c.pre.t(UMB), c.post.t(UMB), P), ["C15", "C16"]
    yield "in_tx", c.post.in_tx["us"], ["C09"]


# ------------------------------------------------ log_client_version
c = contract("server.AppNamespace.log_client_version", cls="AppNamespace",
             params={"server_rx": "real", "side": "str", "client_version": "pair:json"},
             modifies=[UCV, "in_tx.us"], tags=["C16", "C17", "C18", "C09"])


@c.ensures
def _(c):
    a = c.sf("_app_id")
    cv = c.a.client_version.items
    from pvc.state import is_insert_where
    yield "record", If(H.CFG_USAGE,
                       is_insert_where(c.pre.t(UCV), c.post.t(UCV), lambda row: And(
                           row.app_id == a, row.side == c.a.t("side"),
                           specs.blur_rel(row.connect_time, c.a.t("server_rx")),
                           row.implementation == to_term(cv[0], "json"), row.version == to_term(cv[1], "json"))),
                       tbl_eq(c.pre.t(UCV), c.post.t(UCV))), ["C16", "C18"]
    yield "committed", If(H.CFG_USAGE, Not(c.post.in_tx["us"]), c.post.in_tx["us"] == c.pre.in_tx["us"]), ["C09", "C11", "C16"]


# ------------------------------------------------ nameplate id queries
def U(S, a):
    """names of the live nameplates of app a, whatever the listing configuration"""
    return lambda y: S.t(NP).exists(lambda r: And(r.app_id == a, r.name == y))


def set_is_names(S, a, mem, gate):
    """mem = (gate ? names of the live nameplates of app a : empty), as two implications with
    triggers the solver meets (a member; a row)"""
    t = S.t(NP)
    return And(FA([Str], lambda y: Implies(mem(y), And(gate, U(S, a)(y))), pats=lambda y: [mem(y)] if z3.is_app(mem(y)) and not z3.is_false(mem(y)) else None),
               FA([INT], lambda r: Implies(And(gate, t.live[r], t.cols["app_id"][r] == a), mem(t.cols["name"][r])),
                  pats=lambda r: [t.live[r]]))


def members(res):
    if isinstance(res, VSet):
        if res.mem is None:
            return lambda y: BoolVal(False)
        return lambda y: res.mem[y]
    if isinstance(res, VList) and res.n.eq(IntVal(0)):
        return lambda y: BoolVal(False)
    raise AttributeError("result is neither a set nor the empty list")


c = contract("server.AppNamespace._get_nameplate_ids", cls="AppNamespace", params={}, result="set:str",
             modifies=[], tags=["C04", "C06", "C07", "C18", "C17"])


@c.ensures
def _(c):
    a = c.sf("_app_id")
    mem = members(c.result)
    yield "unfiltered_set", set_is_names(c.pre, a, mem, BoolVal(True)), ["C04", "C06", "C07", "C18"]


c = contract("server.AppNamespace.get_nameplate_ids", cls="AppNamespace", params={}, result="set:str",
             modifies=[], tags=["C18", "C07", "C17"])


@c.ensures
def _(c):
    a = c.sf("_app_id")
    mem = members(c.result)
    yield "gated", set_is_names(c.pre, a, mem, H.CFG_ALLOW_LIST), ["C18", "C07"]


# ------------------------------------------------ _find_available_nameplate_id
c = contract("server.AppNamespace._find_available_nameplate_id", cls="AppNamespace", params={}, result="str",
             modifies=[], tags=["C04", "C17"])


def short_free(c, j):
    a = c.sf("_app_id")
    return And(1 <= j, j <= 999, Not(U(c.pre, a)(dec(j))))


@c.ensures
def _(c):
    a = c.sf("_app_id")
    res = to_term(c.result, "str")
    k = undec(res)
    yield "free", Not(U(c.pre, a)(res)), ["C04"]
    yield "positive_decimal", And(res == dec(k), k >= 1), ["C04"]
    some_short = EX([INT], lambda j: short_free(c, j))
    yield "shortest", If(some_short,
                         And(1 <= k, k <= 999,
                             FA([INT], lambda j: Implies(short_free(c, j), ndigits(k) <= ndigits(j)))),
                         And(1000 <= k, k <= 999999)), ["C04"]


@c.raises("ValueError", "exhausted", tags=["C04", "C17"], iff=False)
def _(c):
    yield "when", Not(EX([INT], lambda j: short_free(c, j)))


@c.loop(2, modifies=[], tags=["C04"], over="range(1000)")
def _(c, L):
    yield "trivial", BoolVal(True)


# ------------------------------------------------ heap helpers
def hp(S, name):
    return S.heap[name]


def registry_wf(S, app):
    """H2 for one namespace: a registered Mailbox object carries the key it is
    registered under, this namespace and its app id, and is allocated."""
    m = hp(S, "AppNamespace._mailboxes")[app]
    return FA([Str], lambda k: Implies(m[k] != 0, And(
        S.alloc[m[k]],
        hp(S, "Mailbox._mailbox_id")[m[k]] == k,
        hp(S, "Mailbox._app_id")[m[k]] == hp(S, "AppNamespace._app_id")[app],
        hp(S, "Mailbox._app")[m[k]] == app)), pats=lambda k: [m[k]])


MAILBOX_FIELDS = ["heap.Mailbox._app", "heap.Mailbox._app_id", "heap.Mailbox._mailbox_id", "heap.Mailbox._listeners"]
REGISTRY_COMPS = ["heap.AppNamespace._mailboxes", "alloc"] + MAILBOX_FIELDS


def id_not_foreign(S, a, mid):
    """F2: mailboxes.id is a global key; the code tests existence per app"""
    return S.t(MB).none(lambda r: And(r.id == mid, r.app_id != a))


# ------------------------------------------------ _add_mailbox
c = contract("server.AppNamespace._add_mailbox", cls="AppNamespace",
             params={"mailbox_id": "str", "for_nameplate": "bool", "side": "str", "when": "real"},
             modifies=[MB, "in_tx.ch"], tags=["C03", "C05", "C06", "C17"])


def foreign_id(S, a, mid):
    """F2: the id is taken by a mailbox row of another app (mailboxes.id is a global primary key)"""
    t = S.t(MB)
    return And(t.none(lambda r: And(r.app_id == a, r.id == mid)), t.exists(lambda r: r.id == mid))


@c.raises("IntegrityError", "foreign_id", tags=["C06", "C17"])
def _(c):
    yield "when", foreign_id(c.pre, c.sf("_app_id"), c.a.t("mailbox_id"))
    yield "nothing_stored", And(tbl_eq(c.pre.t(MB), c.post.t(MB)), c.post.in_tx["ch"])


def add_mailbox_post(S0, S1, a, mid, for_np, when):
    had = S0.t(MB).exists(lambda r: And(r.app_id == a, r.id == mid))
    return If(had, And(tbl_eq(S0.t(MB), S1.t(MB)), S1.in_tx["ch"] == S0.in_tx["ch"]),
              And(is_insert(S0.t(MB), S1.t(MB), {"app_id": a, "id": mid, "for_nameplate": for_np, "updated": when}),
                  S1.in_tx["ch"]))


@c.ensures
def _(c):
    yield "row", add_mailbox_post(c.pre, c.post, c.sf("_app_id"), c.a.t("mailbox_id"), c.a.t("for_nameplate"),
                                  c.a.t("when")), ["C03", "C05"]


# ------------------------------------------------ free_mailbox
c = contract("server.AppNamespace.free_mailbox", cls="AppNamespace", params={"mailbox_id": "str"},
             modifies=["heap.AppNamespace._mailboxes"], tags=["C02", "C08", "C17"])


@c.ensures
def _(c):
    m0 = hp(c.pre, "AppNamespace._mailboxes")
    yield "unregistered", hp(c.post, "AppNamespace._mailboxes") == Store(
        m0, c.self_ref, Store(m0[c.self_ref], c.a.t("mailbox_id"), 0)), ["C02", "C08"]


# ------------------------------------------------ open_mailbox
c = contract("server.AppNamespace.open_mailbox", cls="AppNamespace",
             params={"mailbox_id": "str", "side": "str", "when": "real"}, result="ref:Mailbox",
             modifies=[MB, MS, "in_tx.ch"] + REGISTRY_COMPS,
             tags=["C02", "C05", "C08", "C09", "C12", "C14", "C17"])


@c.requires
def _(c):
    yield "registry_wf", registry_wf(c.pre, c.self_ref)
    yield "not_from_future", I.not_from_future(c.pre, c.a.t("when"))


def side_row_post(S0, S1, mid, side, when):
    had = S0.t(MS).exists(lambda r: And(r.mailbox_id == mid, r.side == side))
    return If(had, tbl_eq(S0.t(MS), S1.t(MS)),
              is_insert(S0.t(MS), S1.t(MS), {"mailbox_id": mid, "opened": BoolVal(True), "side": side, "added": when}))


def mailbox_row_post(S0, S1, a, mid, when, for_np=False):
    """the row (a, mid) exists afterwards with updated = when; created
    (for_nameplate given) if it was missing; no other row changes"""
    had = S0.t(MB).exists(lambda r: And(r.app_id == a, r.id == mid))
    return If(had, is_update(S0.t(MB), S1.t(MB), lambda r: r.id == mid, {"updated": when}),
              is_insert(S0.t(MB), S1.t(MB), {"app_id": a, "id": mid, "for_nameplate": BoolVal(for_np),
                                             "updated": when}))


def crowded(S1, mid):
    return specs.three_distinct(lambda r: And(S1.t(MS).live[r], S1.t(MS).cols["mailbox_id"][r] == mid))


def registry_effect(S0, S1, me, a, mid):
    """the Mailbox object registered for key mid afterwards is the one registered before, or a
    freshly allocated one with (_app, _app_id, _mailbox_id) = (me, a, mid) and no listeners;
    nothing else in the registries, the allocation map or any Mailbox object changes"""
    m0 = hp(S0, "AppNamespace._mailboxes")
    old = m0[me][mid]
    new = hp(S1, "AppNamespace._mailboxes")[me][mid]
    fresh_obj = And(Not(S0.alloc[new]), S1.alloc == Store(S0.alloc, new, True),
                    hp(S1, "Mailbox._app") == Store(hp(S0, "Mailbox._app"), new, me),
                    hp(S1, "Mailbox._app_id") == Store(hp(S0, "Mailbox._app_id"), new, a),
                    hp(S1, "Mailbox._mailbox_id") == Store(hp(S0, "Mailbox._mailbox_id"), new, mid),
                    hp(S1, "Mailbox._listeners") == Store(hp(S0, "Mailbox._listeners"), new, K(INT, BoolVal(False))))
    same_obj = And(new == old, S1.alloc == S0.alloc,
                   *[hp(S1, f[5:]) == hp(S0, f[5:]) for f in MAILBOX_FIELDS])
    return And(new != 0, hp(S1, "AppNamespace._mailboxes") == Store(m0, me, Store(m0[me], mid, new)),
               If(old != 0, same_obj, fresh_obj))


def open_mailbox_post(c, res):
    S0, S1 = c.pre, c.post
    a, mid, side, when = c.sf("_app_id"), c.a.t("mailbox_id"), c.a.t("side"), c.a.t("when")
    me = c.self_ref
    yield "row", mailbox_row_post(S0, S1, a, mid, when), ["C05", "C08", "C12", "C14"]
    yield "side_row", side_row_post(S0, S1, mid, side, when), ["C05", "C14", "C08"]
    yield "committed", Not(S1.in_tx["ch"]), ["C09", "C05", "C08", "C10", "C11"]
    m0 = hp(S0, "AppNamespace._mailboxes")
    old = m0[me][mid]
    new = hp(S1, "AppNamespace._mailboxes")[me][mid]
    yield "registered", And(new != 0, hp(S1, "AppNamespace._mailboxes") == Store(m0, me, Store(m0[me], mid, new))), ["C02"]
    fresh_obj = And(Not(S0.alloc[new]), S1.alloc == Store(S0.alloc, new, True),
                    hp(S1, "Mailbox._app") == Store(hp(S0, "Mailbox._app"), new, me),
                    hp(S1, "Mailbox._app_id") == Store(hp(S0, "Mailbox._app_id"), new, a),
                    hp(S1, "Mailbox._mailbox_id") == Store(hp(S0, "Mailbox._mailbox_id"), new, mid),
                    hp(S1, "Mailbox._listeners") == Store(hp(S0, "Mailbox._listeners"), new, K(INT, BoolVal(False))))
    same_obj = And(new == old, S1.alloc == S0.alloc,
                   *[hp(S1, f[5:]) == hp(S0, f[5:]) for f in MAILBOX_FIELDS])
    yield "one_object_per_id", If(old != 0, same_obj, fresh_obj), ["C02", "C11"]
    yield "registry_wf", registry_wf(S1, me), ["C02"]
    if res is not None:
        yield "returns_registered", res == new, ["C02"]


@c.ensures
def _(c):
    yield from open_mailbox_post(c, c.result.t)


@c.raises("IntegrityError", "foreign_id", tags=["C06", "C17"])
def _(c):
    # F2: the id belongs to another app's mailbox: the INSERT violates the primary key; nothing is stored,
    # but the implicit transaction of the failed INSERT stays open
    yield "when", foreign_id(c.pre, c.sf("_app_id"), c.a.t("mailbox_id"))
    yield "nothing_stored", And(unchanged(c, [k for k in [MB, MS] + REGISTRY_COMPS]), c.post.in_tx["ch"])


@c.raises("CrowdedError", "third_side", tags=["C05"])
def _(c):
    yield "when", crowded(c.post, c.a.t("mailbox_id"))
    for n, t, tags in open_mailbox_post(c, None):
        yield n, t
    # C05 "the first two sides keep their access": only a side that arrived after two others is refused (F8)
    ms1 = c.post.t(MS)
    mid, side = c.a.t("mailbox_id"), c.a.t("side")
    mine = lambda r: And(ms1.live[r], ms1.cols["mailbox_id"][r] == mid, ms1.cols["side"][r] == side)
    other = lambda r: And(ms1.live[r], ms1.cols["mailbox_id"][r] == mid, ms1.cols["side"][r] != side)
    yield "refused_is_latecomer", FA([INT], lambda r: Implies(mine(r), EX([INT, INT], lambda x, y: And(
        other(x), other(y), x != y, ms1.cols["added"][x] <= ms1.cols["added"][r],
        ms1.cols["added"][y] <= ms1.cols["added"][r])))), {"assume": False}


# ------------------------------------------------ claim_nameplate
CLAIM_MOD = [NP, NS, MB, MS, "in_tx.ch", "np_next"] + REGISTRY_COMPS
c = contract("server.AppNamespace.claim_nameplate", cls="AppNamespace",
             params={"name": "str", "side": "str", "when": "real"}, result="str",
             modifies=CLAIM_MOD, tags=["C03", "C05", "C07", "C09", "C10", "C14", "C17"])


def core_for_claim(S, when=None):
    return ([("not_from_future", I.not_from_future(S, when))] if when is not None else []) + [("I1", I.I1(S)), ("I2", I.I2(S)), ("I3", I.I3(S)), ("I4", I.I4(S)), ("I5", I.I5(S)), ("I6", I.I6(S))]


@c.requires
def _(c):
    yield from core_for_claim(c.pre, c.a.t("when"))
    yield "clean_ch", Not(c.pre.in_tx["ch"])
    yield "registry_wf", registry_wf(c.pre, c.self_ref)


def N_pred(S, a, name):
    t = S.t(NP)
    return lambda n: And(t.live[n], t.cols["app_id"][n] == a, t.cols["name"][n] == name)


def ns_row_post(S0, S1, n, side, when):
    """side's claim row on nameplate n: left exactly as it is if present, else created claimed"""
    had = S0.t(NS).exists(lambda r: And(r.nameplates_id == n, r.side == side))
    return If(had, tbl_eq(S0.t(NS), S1.t(NS)),
              is_insert(S0.t(NS), S1.t(NS), {"nameplates_id": n, "claimed": BoolVal(True), "side": side,
                                             "added": when}))


def fresh_id(S, g):
    return And(g != EMPTY, S.t(MB).none(lambda r: r.id == g), S.t(MS).none(lambda r: r.mailbox_id == g),
               S.t(MSG).none(lambda r: r.mailbox_id == g), S.t(NP).none(lambda r: r.mailbox_id == g))


def claim_post(c, res):
    """post-state of a claim that went through (answered `claimed` or `crowded`)"""
    S0, S1 = c.pre, c.post
    a, name, side, when = c.sf("_app_id"), c.a.t("name"), c.a.t("side"), c.a.t("when")
    N = N_pred(S0, a, name)
    existed = EX([INT], N)
    np0, np1 = S0.t(NP), S1.t(NP)

    def existing(n):
        mid = np0.cols["mailbox_id"][n]
        cl = [tbl_eq(np0, np1), S1.np_next == S0.np_next,
              ns_row_post(S0, S1, n, side, when),
              is_update(S0.t(MB), S1.t(MB), lambda r: r.id == mid, {"updated": when}),
              side_row_post(S0, S1, mid, side, when),
              registry_effect(S0, S1, c.self_ref, a, mid)]
        if res is not None:
            cl.append(res == mid)
        return And(*cl)
    yield "existing", FA([INT], lambda n: Implies(N(n), existing(n))), ["C03", "C07", "C14", "C05"]
    if res is not None:
        g = res
        n1 = S0.np_next
        new = And(fresh_id(S0, g),
                  is_insert(np0, np1, {"app_id": a, "name": name, "mailbox_id": g}, rowid=n1),
                  S1.np_next == n1 + 1,
                  is_insert(S0.t(NS), S1.t(NS), {"nameplates_id": n1, "claimed": BoolVal(True), "side": side,
                                                 "added": when}),
                  is_insert(S0.t(MB), S1.t(MB), {"app_id": a, "id": g, "for_nameplate": BoolVal(True),
                                                 "updated": when}),
                  is_insert(S0.t(MS), S1.t(MS), {"mailbox_id": g, "opened": BoolVal(True), "side": side,
                                                 "added": when}),
                  registry_effect(S0, S1, c.self_ref, a, g))
        yield "new", Implies(Not(existed), new), ["C03", "C04", "C07"]
        # C03: the answer is the mailbox of the one live nameplate (a, name)
        yield "returns_row_mailbox", np1.exists(lambda r: And(r.app_id == a, r.name == name, r.mailbox_id == res)), ["C03"]
    else:
        yield "only_existing", existed, ["C05"]
    yield "committed", Not(S1.in_tx["ch"]), ["C09", "C03", "C05", "C07", "C10", "C11"]
    yield "registry_wf", registry_wf(S1, c.self_ref), ["C02"]


@c.ensures
def _(c):
    yield from claim_post(c, to_term(c.result, "str"))


def claim_reclaimed(c):
    S0 = c.pre
    a, name, side = c.sf("_app_id"), c.a.t("name"), c.a.t("side")
    N = N_pred(S0, a, name)
    return EX([INT], lambda n: And(N(n), S0.t(NS).exists(
        lambda r: And(r.nameplates_id == n, r.side == side, Not(r.claimed)))))


def claim_crowded(c):
    S0, S1 = c.pre, c.post
    a, name = c.sf("_app_id"), c.a.t("name")
    N = N_pred(S0, a, name)
    ns1 = S1.t(NS)
    return And(Not(claim_reclaimed(c)), EX([INT], lambda n: And(N(n), Or(
        crowded(S1, S0.t(NP).cols["mailbox_id"][n]),
        specs.three_distinct(lambda r: And(ns1.live[r], ns1.cols["nameplates_id"][r] == n))))))


@c.raises("CrowdedError", "third_side", tags=["C05"])
def _(c):
    yield "when", claim_crowded(c)
    for n, t, tags in claim_post(c, None):
        yield n, t


@c.raises("ReclaimedError", "released_before", tags=["C07", "C09"])
def _(c):
    yield "when", claim_reclaimed(c)
    yield "no_change", unchanged(c, CLAIM_MOD)


# ------------------------------------------------ allocate_nameplate
c = contract("server.AppNamespace.allocate_nameplate", cls="AppNamespace",
             params={"side": "str", "when": "real"}, result="str",
             modifies=CLAIM_MOD, tags=["C04", "C09", "C17"])


@c.requires
def _(c):
    yield from core_for_claim(c.pre, c.a.t("when"))
    yield "clean_ch", Not(c.pre.in_tx["ch"])
    yield "registry_wf", registry_wf(c.pre, c.self_ref)


@c.ensures
def _(c):
    S0, S1 = c.pre, c.post
    a, side, when = c.sf("_app_id"), c.a.t("side"), c.a.t("when")
    res = to_term(c.result, "str")
    k = undec(res)
    # C04, on the pre-state: free, positive decimal, shortest available
    yield "free", Not(U(S0, a)(res)), ["C04"]
    yield "positive_decimal", And(res == dec(k), k >= 1), ["C04"]
    some_short = EX([INT], lambda j: short_free(c, j))
    yield "shortest", If(some_short,
                         And(1 <= k, k <= 999, FA([INT], lambda j: Implies(short_free(c, j), ndigits(k) <= ndigits(j)))),
                         And(1000 <= k, k <= 999999)), ["C04"]
    # ... and held by the allocating side before the name is returned
    n1 = S0.np_next
    yield "claimed_before_return", And(
        S1.t(NP).live[n1], S1.t(NP).cols["app_id"][n1] == a, S1.t(NP).cols["name"][n1] == res,
        S1.t(NS).exists(lambda r: And(r.nameplates_id == n1, r.side == side, r.claimed))), ["C04"]
    yield "committed", Not(S1.in_tx["ch"]), ["C09", "C03", "C04", "C07", "C10", "C11"]
    yield "registry_wf", registry_wf(S1, c.self_ref), ["C02"]
    yield "registry_effect", registry_effect(S0, S1, c.self_ref, a, S1.t(NP).cols["mailbox_id"][n1]), ["C02"]
    # the rest of the database moves as in a claim of a new name
    g = S1.t(NP).cols["mailbox_id"][n1]
    yield "as_new_claim", And(
        fresh_id(S0, g),
        is_insert(S0.t(NP), S1.t(NP), {"app_id": a, "name": res, "mailbox_id": g}, rowid=n1), S1.np_next == n1 + 1,
        is_insert(S0.t(NS), S1.t(NS), {"nameplates_id": n1, "claimed": BoolVal(True), "side": side, "added": when}),
        is_insert(S0.t(MB), S1.t(MB), {"app_id": a, "id": g, "for_nameplate": BoolVal(True), "updated": when}),
        is_insert(S0.t(MS), S1.t(MS), {"mailbox_id": g, "opened": BoolVal(True), "side": side, "added": when})), ["C04", "C07"]


@c.raises("ValueError", "exhausted", tags=["C04", "C17"], iff=False)
def _(c):
    yield "when", Not(EX([INT], lambda j: short_free(c, j)))
    yield "no_change", unchanged(c, CLAIM_MOD)


# ------------------------------------------------ release_nameplate
REL_MOD = [NP, NS, UNP, "in_tx.ch", "in_tx.us"]
c = contract("server.AppNamespace.release_nameplate", cls="AppNamespace",
             params={"name": "str", "side": "str", "when": "real"},
             modifies=REL_MOD, tags=["C07", "C09", "C10", "C14", "C15", "C16", "C17"])


@c.requires
def _(c):
    S = c.pre
    yield "I1", I.I1(S)
    yield "I3", I.I3(S)
    yield "I4", I.I4(S)
    yield "clean", I.Clean(S)


def release_post(c):
    S0, S1 = c.pre, c.post
    a, name, side, when = c.sf("_app_id"), c.a.t("name"), c.a.t("side"), c.a.t("when")
    N = N_pred(S0, a, name)
    ns0, ns1, np0, np1 = S0.t(NS), S1.t(NS), S0.t(NP), S1.t(NP)

    def mine(n):
        return lambda r: And(r.nameplates_id == n, r.side == side)
    noop = Or(Not(EX([INT], N)), FA([INT], lambda n: Implies(N(n), ns0.none(mine(n)))))
    yield "noop", Implies(noop, unchanged(c, REL_MOD)), ["C07", "C14"]

    def effect(n):
        others = ns0.exists(lambda r: And(r.nameplates_id == n, r.side != side, r.claimed))
        keep = And(is_update(ns0, ns1, mine(n), {"claimed": BoolVal(False)}), tbl_eq(np0, np1),
                   tbl_eq(S0.t(UNP), S1.t(UNP)))
        from pvc.state import is_insert_where
        member = lambda r: And(ns0.live[r], ns0.cols["nameplates_id"][r] == n)
        added = lambda r: ns0.cols["added"][r]
        usage = If(H.CFG_USAGE,
                   is_insert_where(S0.t(UNP), S1.t(UNP), lambda row: And(row.app_id == a, *[
                       t for _, t, _ in np_summary_spec(None, when, BoolVal(False), *row_usage(row),
                                                        member=member, added=added)])),
                   tbl_eq(S0.t(UNP), S1.t(UNP)))
        retire = And(is_delete(ns0, ns1, lambda r: r.nameplates_id == n),
                     is_delete(np0, np1, lambda r: r.id == n), usage)
        return Implies(ns0.exists(mine(n)), If(others, keep, retire))
    # Claims' = Claims \ {side}; the nameplate goes exactly when no claim remains; one usage record then
    yield "effect", FA([INT], lambda n: Implies(N(n), effect(n))), ["C07", "C15", "C16", "C14"]
    yield "committed", I.Clean(S1), ["C09", "C03", "C07", "C10", "C11", "C15"]


@c.ensures
def _(c):
    yield from release_post(c)


# ------------------------------------------------ invariant preservation (induction over events)
from pvc.contract import REGISTRY as _R    # noqa: E402
I.add_preserves(_R["server.AppNamespace.open_mailbox"], names=[n for n in I.DB_INV if n != "I9a"], raises=["CrowdedError"])


@_R["server.AppNamespace.open_mailbox"].requires
def _(c):
    # the mailbox being opened may still lack its side row (claim creates it just before)
    yield "I9a_but_this", I.I9a_but(c.pre, c.a.t("mailbox_id"))


@_R["server.AppNamespace.open_mailbox"].ensures
def _(c):
    yield "preserves.I9a", I.I9a(c.post), ["C10", "C13", "C15"]
I.add_preserves(_R["server.AppNamespace.claim_nameplate"], raises=["CrowdedError"])
I.add_preserves(_R["server.AppNamespace.allocate_nameplate"])
I.add_preserves(_R["server.AppNamespace.release_nameplate"])


# ------------------------------------------------ prune
PRUNE_MOD = [MB, MS, MSG, NP, NS, UNP, UMB, "in_tx.ch", "in_tx.us"]
c = contract("server.AppNamespace.prune", cls="AppNamespace", params={"now": "real", "old": "real"}, result="bool",
             modifies=PRUNE_MOD, tags=["C01", "C06", "C09", "C10", "C12", "C13", "C15", "C16", "C17"])
I.add_preserves(c)


def has_listeners(S, M):
    ls = hp(S, "Mailbox._listeners")[M]
    return EX([INT], lambda h: ls[h])


def touched(S, me):
    """ids of the mailboxes this namespace holds an object with listeners for"""
    m = hp(S, "AppNamespace._mailboxes")[me]
    return lambda y: And(m[y] != 0, has_listeners(S, m[y]))


@c.requires
def _(c):
    S = c.pre
    me = c.self_ref
    a = c.sf("_app_id")
    yield "clean", I.Clean(S)
    yield "registry_wf", registry_wf(S, me)
    yield "old_before_now", c.a.t("old") < c.a.t("now")
    # the subscribed mailboxes of this namespace are rows of this app (from H4/H5 and the key on mailboxes.id)
    T = touched(S, me)
    yield "touch_own", S.t(MB).none(lambda r: And(T(r.id), r.app_id != a))


def prune_sets(c):
    S0 = c.pre
    a, now, old = c.sf("_app_id"), c.a.t("now"), c.a.t("old")
    T = touched(S0, c.self_ref)
    mb0 = S0.t(MB)
    upd1 = lambda r: If(T(mb0.cols["id"][r]), now, mb0.cols["updated"][r])
    oldrow = lambda r: And(mb0.live[r], mb0.cols["app_id"][r] == a, upd1(r) <= old)
    oldid = lambda y: EX([INT], lambda r: And(oldrow(r), mb0.cols["id"][r] == y))
    return T, upd1, oldrow, oldid


@c.ensures
def _(c):
    S0, S1 = c.pre, c.post
    a, now, old = c.sf("_app_id"), c.a.t("now"), c.a.t("old")
    T, upd1, oldrow, oldid = prune_sets(c)
    mb0, mb1, np0 = S0.t(MB), S1.t(MB), S0.t(NP)
    # C12/C13: a mailbox of this app goes iff, after subscribed ones were touched, its last activity is not
    # newer than `old`; survivors keep everything, subscribed ones get updated=now
    yield "mailboxes", FA([INT], lambda r: And(
        mb1.live[r] == And(mb0.live[r], Not(oldrow(r))),
        Implies(mb1.live[r], And(mb1.cols["updated"][r] == upd1(r), mb1.cols["app_id"][r] == mb0.cols["app_id"][r],
                                 mb1.cols["id"][r] == mb0.cols["id"][r],
                                 mb1.cols["for_nameplate"][r] == mb0.cols["for_nameplate"][r]))),
        pats=lambda r: [mb1.live[r], mb0.live[r]]), ["C12", "C13", "C06"]
    yield "delete_complete.mailbox_sides", is_delete(S0.t(MS), S1.t(MS), lambda r: oldid(r.mailbox_id)), ["C12", "C13", "C06"]
    yield "delete_complete.messages", is_delete(S0.t(MSG), S1.t(MSG), lambda r: oldid(r.mailbox_id)), ["C12", "C13", "C01", "C06"]
    oldnp = lambda n: And(np0.live[n], np0.cols["app_id"][n] == a, oldid(np0.cols["mailbox_id"][n]))
    yield "delete_complete.nameplates", is_delete(np0, S1.t(NP), lambda r: oldnp(r.r)), ["C12", "C13", "C07", "C06"]
    yield "delete_complete.nameplate_sides", is_delete(S0.t(NS), S1.t(NS), lambda r: oldnp(r.nameplates_id)), ["C12", "C13", "C07", "C06"]
    # C12 in "survivor form": whatever hangs off a mailbox row that is still there is untouched
    from pvc.state import same_row
    survives = lambda y: EX([INT], lambda r: And(mb1.live[r], mb1.cols["id"][r] == y))
    for key, col in ((MS, "mailbox_id"), (MSG, "mailbox_id"), (NP, "mailbox_id")):
        t0, t1 = S0.t(key), S1.t(key)
        yield "survivors_keep." + key, FA([INT], lambda r, t0=t0, t1=t1, col=col: Implies(
            And(t0.live[r], survives(t0.cols[col][r])), And(t1.live[r], same_row(t0, t1, r))),
            pats=lambda r, t0=t0, t1=t1: [t1.live[r], t0.live[r]]), ["C12", "C06"]
    ns0, ns1 = S0.t(NS), S1.t(NS)
    yield "survivors_keep." + NS, FA([INT], lambda r: Implies(
        And(ns0.live[r], np0.live[ns0.cols["nameplates_id"][r]], survives(np0.cols["mailbox_id"][ns0.cols["nameplates_id"][r]])),
        And(ns1.live[r], same_row(ns0, ns1, r))), pats=lambda r: [ns1.live[r], ns0.live[r]]), ["C12", "C06"]
    nothing = Not(EX([INT], oldrow))
    yield "usage_only_on_retirement", Implies(Or(nothing, Not(H.CFG_USAGE)),
                                              And(tbl_eq(S0.t(UNP), S1.t(UNP)), tbl_eq(S0.t(UMB), S1.t(UMB)))), ["C15", "C18"]
    yield "committed", I.Clean(S1), ["C09", "C10", "C11", "C13", "C15"]
    m = hp(S0, "AppNamespace._mailboxes")[c.self_ref]
    yield "in_use_iff_mailbox_objects", to_term(c.result, "bool") == EX([Str], lambda k: m[k] != 0), ["C02", "C12", "C15"]


@c.loop(0, modifies=[MB, "in_tx.ch"], tags=["C12"], over="self._mailboxes.values()")
def _(c, L):
    """touch loop: the rows of the registered mailboxes processed so far that have listeners carry updated=now"""
    E, S = L.entry, c.post
    me = c.self_ref
    m = hp(E, "AppNamespace._mailboxes")[me]
    yield "touched_done", is_update(E.t(MB), S.t(MB), lambda r: And(L.done(r.id), has_listeners(E, m[r.id])),
                                    {"updated": c.a.t("now")})
    yield "in_tx_us", S.in_tx["us"] == E.in_tx["us"]


@c.loop(3, modifies=[NS, NP, UNP, "in_tx.ch", "in_tx.us"], locals_=[("modified", "bool")], tags=["C13", "C12", "C15"],
        over="old_nameplates")
def _(c, L):
    """nameplate deletion loop: the old nameplates processed so far and their side rows are gone, nothing else"""
    E, S = L.entry, c.post
    yield "nameplates_of_done_gone", is_delete(E.t(NP), S.t(NP), lambda r: L.done(r.r))
    yield "sides_of_done_gone", is_delete(E.t(NS), S.t(NS), lambda r: L.done(r.nameplates_id))
    quiet = Or(Not(H.CFG_USAGE), L.k == 0)
    yield "usage_quiet", Implies(quiet, And(tbl_eq(E.t(UNP), S.t(UNP)), S.in_tx["us"] == E.in_tx["us"]))
    yield "usage_pending", Implies(Not(quiet), to_term(L.var("modified"), "bool"))
    yield "modified", Implies(L.k > 0, to_term(L.var("modified"), "bool"))
    yield "modified_or_clean", Implies(Not(to_term(L.var("modified"), "bool")),
                                       And(S.in_tx["ch"] == E.in_tx["ch"], S.in_tx["us"] == E.in_tx["us"]))


@c.loop_step(3)
def _(c, L, head):
    """one iteration retires exactly the nameplate npid: its rows go and, with a usage DB, exactly
    one `pruney`-capable summary of its side rows is recorded (C15)"""
    from pvc.state import is_insert_where
    S = c.post
    n = to_term(L.elem, "int")
    a, now = c.sf("_app_id"), c.a.t("now")
    ns = head.t(NS)
    member = lambda r: And(ns.live[r], ns.cols["nameplates_id"][r] == n)
    added = lambda r: ns.cols["added"][r]
    yield "one_usage_row", If(H.CFG_USAGE,
                              is_insert_where(head.t(UNP), S.t(UNP), lambda row: And(row.app_id == a, *[
                                  t for _, t, _ in np_summary_spec(None, now, BoolVal(True), *row_usage(row),
                                                                   member=member, added=added)])),
                              tbl_eq(head.t(UNP), S.t(UNP))), ["C15", "C16"]


@c.loop(4, modifies=[MSG, MS, MB, UMB, "in_tx.ch", "in_tx.us"], locals_=[("modified", "bool")], tags=["C13", "C12", "C15"],
        over="old_mailboxes")
def _(c, L):
    """mailbox deletion loop: the old mailboxes processed so far are gone with their messages and side rows"""
    E, S = L.entry, c.post
    yield "mailboxes_of_done_gone", is_delete(E.t(MB), S.t(MB), lambda r: L.done(r.id))
    yield "sides_of_done_gone", is_delete(E.t(MS), S.t(MS), lambda r: L.done(r.mailbox_id))
    yield "messages_of_done_gone", is_delete(E.t(MSG), S.t(MSG), lambda r: L.done(r.mailbox_id))
    quiet = Or(Not(H.CFG_USAGE), L.k == 0)
    yield "usage_quiet", Implies(quiet, And(tbl_eq(E.t(UMB), S.t(UMB)), S.in_tx["us"] == E.in_tx["us"]))
    yield "modified", Implies(L.k > 0, to_term(L.var("modified"), "bool"))
    yield "modified_keeps", Implies(to_term(L.entry_env["modified"], "bool"), to_term(L.var("modified"), "bool"))
    yield "modified_or_clean", Implies(Not(to_term(L.var("modified"), "bool")),
                                       And(S.in_tx["ch"] == E.in_tx["ch"], S.in_tx["us"] == E.in_tx["us"]))


@c.loop_step(4)
def _(c, L, head):
    from pvc.state import is_insert_where
    S = c.post
    x = to_term(L.elem, "str")
    a, now = c.sf("_app_id"), c.a.t("now")
    ms, mb = head.t(MS), head.t(MB)
    member = lambda r: And(ms.live[r], ms.cols["mailbox_id"][r] == x)
    added = lambda r: ms.cols["added"][r]
    mood_is = lambda r, sv: And(Not(ms.nulls["mood"][r]), ms.cols["mood"][r] == sv)
    yield "one_usage_row", If(H.CFG_USAGE,
                              is_insert_where(head.t(UMB), S.t(UMB), lambda row: And(
                                  row.app_id == a,
                                  mb.exists(lambda r: And(r.id == x, r.for_nameplate == row.for_nameplate)),
                                  *[t for _, t, _ in mb_summary_spec(None, now, BoolVal(True), *row_usage(row),
                                                                     member=member, added=added, mood_is=mood_is)])),
                              tbl_eq(head.t(UMB), S.t(UMB))), ["C15", "C16"]


# ------------------------------------------------ count_listeners
from pvc.builtins import dictsum          # noqa: E402
from pvc.symex import card                # noqa: E402
cardarr = Function("cardarr", ArraySort(INT, ArraySort(INT, BOOL)), ArraySort(INT, INT))


def cardarr_axiom(LSarr=None):
    """cardarr(LS)[M] = |LS[M]|  (definition of the spec function, for every LS)"""
    return FA([ArraySort(INT, ArraySort(INT, BOOL)), INT], lambda L_, M: cardarr(L_)[M] == card(L_[M]),
              pats=lambda L_, M: [cardarr(L_)[M]])


import pvc.zs as _zs     # noqa: E402
_zs.EXTRA_AXIOMS.append(cardarr_axiom())


def listener_total(S, app):
    """sum over the Mailbox objects registered in namespace `app` of their listener-set sizes"""
    return dictsum(cardarr(hp(S, "Mailbox._listeners")), hp(S, "AppNamespace._mailboxes")[app])


c = contract("server.AppNamespace.count_listeners", cls="AppNamespace", params={}, result="int", modifies=[],
             tags=["C15", "C17"])
c.result_term = lambda c: listener_total(c.pre, c.self_ref)


@c.ensures
def _(c):
    yield "sum_of_listener_counts", to_term(c.result, "int") == listener_total(c.pre, c.self_ref), ["C15"]
