"""Invariant catalogue (DESIGN 6) as predicates over a State."""
from pvc.zs import *  # noqa
from pvc.state import Row


def NP(S): return S.t("ch.nameplates")
def NS(S): return S.t("ch.nameplate_sides")
def MB(S): return S.t("ch.mailboxes")
def MS(S): return S.t("ch.mailbox_sides")
def MSG(S): return S.t("ch.messages")


def I1_np(S):
    """every nameplate's mailbox_id names a live mailbox"""
    return NP(S).forall(lambda r: MB(S).exists(lambda m: m.id == r.mailbox_id))


def I1_ms(S):
    return MS(S).forall(lambda r: MB(S).exists(lambda m: m.id == r.mailbox_id))


def I1_ns(S):
    """every nameplate_sides row names a live nameplate (id = rowid)"""
    return NS(S).forall(lambda r: NP(S).live[r.nameplates_id])


def I1(S):
    return And(I1_np(S), I1_ms(S), I1_ns(S))


def I2_mb(S):
    """mailboxes.id is a key"""
    t = MB(S)
    return FA([INT, INT], lambda a, b: Implies(And(t.live[a], t.live[b], t.cols["id"][a] == t.cols["id"][b]), a == b))


def I2_np(S):
    """AUTOINCREMENT: live nameplate rowids are below the counter, and so is
    every id still referenced"""
    return And(FA([INT], lambda r: Implies(NP(S).live[r], r < S.np_next), pats=lambda r: [NP(S).live[r]]),
               NS(S).forall(lambda r: r.nameplates_id < S.np_next))


def I2(S):
    return And(I2_mb(S), I2_np(S))


def uniq(t, cols):
    return FA([INT, INT], lambda a, b: Implies(And(t.live[a], t.live[b],
                                                   *[t.get(c, a) == t.get(c, b) for c in cols]), a == b))


def I3(S):
    return uniq(NP(S), ["app_id", "name"])


def I4(S):
    return uniq(NS(S), ["nameplates_id", "side"])


def I5(S):
    return uniq(MS(S), ["mailbox_id", "side"])


def I6(S):
    """a nameplate and its mailbox share the app; at most one nameplate per mailbox"""
    return And(
        NP(S).forall(lambda r: MB(S).forall(lambda m: Implies(m.id == r.mailbox_id, m.app_id == r.app_id))),
        uniq(NP(S), ["mailbox_id"]))


def I7(S):
    """every message belongs to a live mailbox of the same app"""
    return MSG(S).forall(lambda r: MB(S).exists(lambda m: And(m.id == r.mailbox_id, m.app_id == r.app_id)))


def I8a(S):
    return FA([INT], lambda n: Implies(NP(S).live[n], NS(S).exists(lambda s: s.nameplates_id == n)),
              pats=lambda n: [NP(S).live[n]])


def I9a(S):
    return MB(S).forall(lambda m: MS(S).exists(lambda s: s.mailbox_id == m.id))


def I9a_but(S, mid):
    """I9a for every mailbox except `mid` (the one whose side row is about to be written)"""
    return MB(S).forall(lambda m: Or(m.id == mid, MS(S).exists(lambda s: s.mailbox_id == m.id)))


def not_from_future(S, when):
    """A15: no side row carries an arrival time later than the current event's clock read"""
    return MS(S).forall(lambda r: r.added <= when)


def I10(S):
    """key strings are non-empty where the code relies on truthiness: none needed;
    kept as the type discipline enforced at every INSERT/UPDATE (NullIntoKeyColumn)."""
    return BoolVal(True)


def Core(S):
    return And(I1(S), I2(S), I3(S), I4(S), I5(S))


def Clean(S):
    return And(Not(S.in_tx["ch"]), Not(S.in_tx["us"]))


def Recoverable(S):
    return And(I1(S), I2(S), I3(S), I4(S), I5(S), I6(S), I7(S), I8a(S), I9a(S))


NAMED = {"I1": I1, "I2": I2, "I3": I3, "I4": I4, "I5": I5, "I6": I6, "I7": I7, "I8a": I8a, "I9a": I9a}


DB_INV = ["I1", "I2", "I3", "I4", "I5", "I6", "I7", "I8a", "I9a"]


def add_preserves(con, names=DB_INV, raises=(), tags=("C10", "C17", "C01", "C13", "C07", "C08")):
    """requires every listed invariant and ensures each of them again (also on the
    listed exceptional exits): the per-function part of the induction over events"""
    def req(c):
        for n in names:
            yield n, NAMED[n](c.pre)
    # do not duplicate a requires the contract already states under the same name
    con._requires.insert(0, _dedup(req, con))

    def ens(c):
        for n in names:
            yield "preserves." + n, NAMED[n](c.post), list(tags)
    con._ensures.append(ens)
    con.preserved = list(names)
    con.commit_invariants = list(DB_INV)      # C10: every commit point of this function leaves a Recoverable state
    for i, (exc, name, fn, fields, rtags, iff) in enumerate(con._raises):
        if exc in raises:
            def fn2(c, fn=fn):
                yield from fn(c)
                for n in names:
                    yield "preserves." + n, NAMED[n](c.post)
            con._raises[i] = (exc, name, fn2, fields, rtags, iff)


def _dedup(req, con):
    def wrapped(c):
        have = set()
        for fn in con._requires:
            if fn is wrapped:
                continue
            for it in fn(c):
                have.add(it[0])
        for it in req(c):
            if it[0] not in have:
                yield it
    return wrapped
