"""Contracts of server.Server and server_tap (DESIGN A.3)."""
import z3
from pvc.zs import *  # noqa
from pvc.values import *  # noqa
from pvc.contract import contract
from pvc.state import is_insert, is_update, is_delete, tbl_eq, arrays_equal
from pvc import heap as H
from . import invariants as I
from .appnamespace import hp, registry_wf, MB, MS, MSG, NP, NS

APPS = "Server._apps"
APP_FIELDS = ["heap.AppNamespace._app_id", "heap.AppNamespace._mailboxes"]


def apps_wf(S):
    """H1: a registered namespace carries the app id it is registered under, is allocated,
    and its own registry is well-formed (H2)"""
    m = hp(S, APPS)[H.SERVER]
    return And(
        FA([Str], lambda a: Implies(m[a] != 0, And(S.alloc[m[a]], hp(S, "AppNamespace._app_id")[m[a]] == a)),
           pats=lambda a: [m[a]]),
        FA([Str], lambda a: Implies(m[a] != 0, registry_wf(S, m[a])), pats=lambda a: [m[a]]))


c = contract("server.Server.get_welcome", cls="Server", params={}, result="json", modifies=[], tags=["C17"])


@c.ensures
def _(c):
    yield "configured_welcome", c.result.t == hp(c.pre, "Server._welcome")[c.self_ref], ["C17"]


c = contract("server.Server.get_log_requests", cls="Server", params={}, result="bool", modifies=[], tags=["C17", "C18"])


@c.ensures
def _(c):
    yield "configured", to_term(c.result, "bool") == H.CFG_LOG_REQUESTS, ["C18"]


# ---------------------------------------------------------------- get_app
c = contract("server.Server.get_app", cls="Server", params={"app_id": "str"}, result="ref:AppNamespace",
             modifies=["heap." + APPS, "alloc"] + APP_FIELDS, tags=["C02", "C06", "C11", "C16", "C17", "C18"])


@c.requires
def _(c):
    yield "the_server", c.self_ref == H.SERVER
    yield "apps_wf", apps_wf(c.pre)


@c.ensures
def _(c):
    S0, S1 = c.pre, c.post
    a = c.a.t("app_id")
    me = c.self_ref
    m0 = hp(S0, APPS)
    old = m0[me][a]
    new = hp(S1, APPS)[me][a]
    res = c.result.t
    yield "returns_registered", And(res == new, new != 0), ["C02", "C11"]
    yield "registered", hp(S1, APPS) == Store(m0, me, Store(m0[me], a, new)), ["C02"]
    fresh_obj = And(Not(S0.alloc[new]), S1.alloc == Store(S0.alloc, new, True),
                    hp(S1, "AppNamespace._app_id") == Store(hp(S0, "AppNamespace._app_id"), new, a),
                    hp(S1, "AppNamespace._mailboxes") == Store(hp(S0, "AppNamespace._mailboxes"), new, K(Str, IntVal(0))))
    same = And(new == old, S1.alloc == S0.alloc, hp(S1, "AppNamespace._app_id") == hp(S0, "AppNamespace._app_id"),
               hp(S1, "AppNamespace._mailboxes") == hp(S0, "AppNamespace._mailboxes"))
    yield "one_namespace_per_app", If(old != 0, same, fresh_obj), ["C02", "C06", "C11"]
    yield "apps_wf", apps_wf(S1), ["C02"]


# ---------------------------------------------------------------- get_all_apps
c = contract("server.Server.get_all_apps", cls="Server", params={}, result="set:str", modifies=[],
             tags=["C13", "C10", "C17"])


def app_has_rows(S, y):
    return Or(S.t(NP).exists(lambda r: r.app_id == y), S.t(MB).exists(lambda r: r.app_id == y),
              S.t(MSG).exists(lambda r: r.app_id == y))


@c.requires
def _(c):
    yield "I7", I.I7(c.pre)      # (every message hangs off a mailbox of its app: the messages query adds nothing new)


@c.ensures
def _(c):
    from .appnamespace import members
    mem = members(c.result)
    # every app that owns a nameplate, a mailbox or a message is swept (C13)
    yield "every_app_with_rows", FA([Str], lambda y: mem(y) == app_has_rows(c.pre, y)), ["C13"]


# ---------------------------------------------------------------- prune_all_apps
from . import heapinv as HI                                 # noqa: E402
from .appnamespace import PRUNE_MOD, cardarr_axiom          # noqa: E402

PAA_MOD = PRUNE_MOD + ["heap." + APPS, "alloc"] + APP_FIELDS
c = contract("server.Server.prune_all_apps", cls="Server", params={"now": "real", "old": "real"},
             modifies=PAA_MOD, tags=["C01", "C02", "C03", "C05", "C06", "C07", "C08", "C09", "C10", "C12", "C13", "C15", "C16", "C17", "C18"])
I.add_preserves(c)


def GH3(S):
    """H3 for every alive bound connection: its namespace is the one registered for its app (F1)"""
    capp = S.heap["WebSocketServer._app"]
    return FA([INT], lambda cn: Implies(And(S.heap["WebSocketServer.alive"][cn], capp[cn] != 0),
                                        hp(S, APPS)[H.SERVER][hp(S, "AppNamespace._app_id")[capp[cn]]] == capp[cn]),
              pats=lambda cn: [capp[cn]])


def sweep_pre(c):
    S = c.pre
    yield "the_server", c.self_ref == H.SERVER
    yield "clean", I.Clean(S)
    yield "apps_wf", apps_wf(S)
    yield "GH4", HI.GH4(S)
    yield "GH5", HI.GH5(S)
    yield "old_before_now", c.a.t("old") < c.a.t("now")


c.requires(sweep_pre)


def sub_row(S, T, r):
    """some alive connection is subscribed to the mailbox of row r of mailboxes-snapshot T"""
    cm = S.heap["WebSocketServer._mailbox"]
    return EX([INT], lambda cn: And(HI.subscribed(S, cn, cm[cn]),
                                    hp(S, "Mailbox._mailbox_id")[cm[cn]] == T.cols["id"][r],
                                    hp(S, "Mailbox._app_id")[cm[cn]] == T.cols["app_id"][r]))


def protected_kept(E, S, old, scope=lambda r: BoolVal(True)):
    """C12: a mailbox that saw activity after `old`, or has a subscriber, survives with its side rows,
    its messages, the nameplate pointing at it and that nameplate's side rows"""
    mbE, mbS = E.t(MB), S.t(MB)
    prot = lambda r: And(mbE.live[r], scope(r), Or(mbE.cols["updated"][r] > old, sub_row(E, mbE, r)))
    protid = lambda y: EX([INT], lambda r: And(prot(r), mbE.cols["id"][r] == y))
    from pvc.state import same_row
    yield "mailbox", FA([INT], lambda r: Implies(prot(r), And(
        mbS.live[r], mbS.cols["id"][r] == mbE.cols["id"][r], mbS.cols["app_id"][r] == mbE.cols["app_id"][r],
        mbS.cols["for_nameplate"][r] == mbE.cols["for_nameplate"][r], Or(mbS.cols["updated"][r] > old, sub_row(S, mbS, r)))),
        pats=lambda r: [mbS.live[r], mbE.live[r]])
    for key, col in ((MS, "mailbox_id"), (MSG, "mailbox_id"), (NP, "mailbox_id")):
        tE, tS = E.t(key), S.t(key)
        yield key, FA([INT], lambda r, tE=tE, tS=tS, col=col: Implies(And(tE.live[r], protid(tE.cols[col][r])),
                                                                     And(tS.live[r], same_row(tE, tS, r))),
                      pats=lambda r, tE=tE, tS=tS: [tS.live[r], tE.live[r]])
    nsE, nsS, npE = E.t(NS), S.t(NS), E.t(NP)
    yield NS, FA([INT], lambda r: Implies(And(nsE.live[r], npE.live[nsE.cols["nameplates_id"][r]],
                                              protid(npE.cols["mailbox_id"][nsE.cols["nameplates_id"][r]])),
                                          And(nsS.live[r], same_row(nsE, nsS, r))),
                 pats=lambda r: [nsS.live[r], nsE.live[r]])


def in_use_namespaces_stay(E, S):
    """a registered namespace that holds Mailbox objects is never dropped by a sweep"""
    aE, aS = hp(E, APPS)[H.SERVER], hp(S, APPS)[H.SERVER]
    mb = hp(E, "AppNamespace._mailboxes")
    return FA([Str], lambda a: Implies(And(aE[a] != 0, EX([Str], lambda k: mb[aE[a]][k] != 0)), aS[a] == aE[a]),
              pats=lambda a: [aS[a], aE[a]])


def heap_quiet(E, S):
    """a sweep does not touch connections, Mailbox objects, listener sets, or the registries of
    the namespaces that existed before; namespaces it creates have empty registries"""
    cs = []
    for f in ("WebSocketServer._app", "WebSocketServer._mailbox", "WebSocketServer._listening", "WebSocketServer.alive",
              "Mailbox._listeners", "Mailbox._app", "Mailbox._app_id", "Mailbox._mailbox_id"):
        cs.append(S.heap[f] == E.heap[f])
    mE, mS = hp(E, "AppNamespace._mailboxes"), hp(S, "AppNamespace._mailboxes")
    aE, aS = hp(E, "AppNamespace._app_id"), hp(S, "AppNamespace._app_id")
    cs.append(FA([INT], lambda A: Implies(E.alloc[A], And(S.alloc[A], mS[A] == mE[A], aS[A] == aE[A])),
                 pats=lambda A: [S.alloc[A], E.alloc[A]]))
    cs.append(FA([INT], lambda A: Implies(And(S.alloc[A], Not(E.alloc[A]), H.cls_of(A) == S_("AppNamespace")),
                                          mS[A] == K(Str, IntVal(0))), pats=lambda A: [S.alloc[A]]))
    return And(*cs)


from pvc.zs import S as S_      # noqa: E402  (string literal constructor; `S` is used for states here)


@c.ensures
def _(c):
    S0, S1 = c.pre, c.post
    old = c.a.t("old")
    for n, t in protected_kept(S0, S1, old):
        yield "protected_kept." + n, t, ["C12", "C06", "C01", "C03", "C05", "C07", "C08"]
    mb1 = S1.t(MB)
    # C13: whatever is left was active after `old` or is subscribed (and was touched): nothing idle survives
    yield "all_remaining_fresh", mb1.forall(lambda r: r.updated > old), ["C13"]
    mb0 = S0.t(MB)
    # ... and only what was protected remains: no new rows, and every survivor was active after `old` or subscribed
    yield "only_protected_remain", FA([INT], lambda r: Implies(mb1.live[r], And(
        mb0.live[r], Or(mb0.cols["updated"][r] > old, sub_row(S0, mb0, r)))), pats=lambda r: [mb1.live[r]]), ["C13"]
    yield "committed", I.Clean(S1), ["C09", "C10", "C11", "C13"]
    yield "preserves.apps_wf", apps_wf(S1), ["C02", "C11"]
    yield "preserves.GH4", HI.GH4(S1), ["C02", "C12"]
    yield "preserves.GH5", HI.GH5(S1), ["C02", "C12"]
    yield "heap_quiet", heap_quiet(S0, S1), ["C02", "C11", "C12"]
    yield "in_use_namespaces_stay", in_use_namespaces_stay(S0, S1), ["C02", "C12", "C15"]
    # F1: a namespace is dropped although connections are still bound to it
    yield "preserves.GH3", Implies(GH3(S0), GH3(S1)), ["C02", "C12", "C15", "C11"]


@c.raises("AnyException", "transient_failure", tags=["C13"], iff=False)
def _(c):
    # A5/C13: a database access of the sweep may fail with any exception, at any point; nothing is
    # promised about the state it leaves (the caller must cope)
    yield "when", BoolVal(True)


@c.loop(0, modifies=PAA_MOD, tags=["C12", "C13", "C10"], over="sorted(self.get_all_apps())")
def _(c, L):
    E, S = L.entry, c.post
    old = c.a.t("old")
    for n in I.DB_INV:
        yield "inv." + n, I.NAMED[n](S)
    yield "clean", I.Clean(S)
    yield "apps_wf", apps_wf(S)
    yield "GH4", HI.GH4(S)
    yield "GH5", HI.GH5(S)
    yield "heap_quiet", heap_quiet(E, S)
    yield "in_use_namespaces_stay", in_use_namespaces_stay(E, S)
    for n, t in protected_kept(E, S, old):
        yield "protected_kept." + n, t
    mbS = S.t(MB)
    yield "done_apps_fresh", mbS.forall(lambda r: Implies(L.done(r.app_id), r.updated > old))
    mbE_ = E.t(MB)
    yield "done_apps_only_protected", FA([INT], lambda r: Implies(
        And(mbS.live[r], L.done(mbS.cols["app_id"][r])),
        Or(mbE_.cols["updated"][r] > old, sub_row(E, mbE_, r))), pats=lambda r: [mbS.live[r]])
    # rows of the apps not yet processed are as at loop entry (prune only touches its own app)
    mbE = E.t(MB)
    yield "pending_untouched", FA([INT], lambda r: Implies(And(mbE.live[r], Not(L.done(mbE.cols["app_id"][r]))),
                                                           And(mbS.live[r], mbS.cols["app_id"][r] == mbE.cols["app_id"][r],
                                                               mbS.cols["id"][r] == mbE.cols["id"][r],
                                                               mbS.cols["updated"][r] == mbE.cols["updated"][r])),
                                  pats=lambda r: [mbS.live[r], mbE.live[r]])
    yield "no_new_rows", FA([INT], lambda r: Implies(mbS.live[r], And(mbE.live[r], mbS.cols["app_id"][r] == mbE.cols["app_id"][r],
                                                                      mbS.cols["id"][r] == mbE.cols["id"][r])),
                            pats=lambda r: [mbS.live[r]])


# ---------------------------------------------------------------- dump_stats
from pvc.builtins import dictsum                            # noqa: E402
from .appnamespace import cardarr, listener_total, UCUR   # noqa: E402
apptot = Function("apptot", ArraySort(INT, ArraySort(Str, INT)), ArraySort(INT, ArraySort(INT, BOOL)), ArraySort(INT, INT))


def apptot_axiom(S=None):
    """apptot(mailboxes, listeners)[A] = sum over A's registered Mailbox objects of |listeners| (spec definition)"""
    return FA([ArraySort(INT, ArraySort(Str, INT)), ArraySort(INT, ArraySort(INT, BOOL)), INT],
              lambda mb, ls, A: apptot(mb, ls)[A] == dictsum(cardarr(ls), mb[A]),
              pats=lambda mb, ls, A: [apptot(mb, ls)[A]])


import pvc.zs as _zs     # noqa: E402
_zs.EXTRA_AXIOMS.append(apptot_axiom())


def server_total(S):
    """sum over the registered namespaces of their listener totals"""
    return dictsum(apptot(hp(S, "AppNamespace._mailboxes"), hp(S, "Mailbox._listeners")), hp(S, APPS)[H.SERVER])


c = contract("server.Server.dump_stats", cls="Server", params={"now": "real", "rebooted": "real"},
             modifies=[UCUR, "in_tx.us"], tags=["C15", "C09", "C13", "C17", "C18"])


@c.requires
def _(c):
    yield "the_server", c.self_ref == H.SERVER


@c.ensures
def _(c):
    S0, S1 = c.pre, c.post
    t1 = S1.t(UCUR)
    row_ok = lambda r: And(t1.cols["rebooted"][r] == c.a.t("rebooted"), t1.cols["updated"][r] == c.a.t("now"),
                           t1.nulls["blur_time"][r] == H.CFG_BLUR_NONE,
                           Implies(Not(H.CFG_BLUR_NONE), t1.cols["blur_time"][r] == H.CFG_BLUR),
                           t1.cols["connections_websocket"][r] == z3.ToReal(server_total(S0)))
    # exactly one status row, carrying the listener total (C15; that this is the number of subscribed
    # connections is the counting lemma C15.count, a paper step over H3-H5)
    yield "one_status_row", If(H.CFG_USAGE,
                               EX([INT], lambda r2: And(t1.live[r2], row_ok(r2),
                                                        FA([INT], lambda r: Implies(r != r2, Not(t1.live[r]))))),
                               tbl_eq(S0.t(UCUR), t1)), ["C15", "C18"]
    yield "committed", If(H.CFG_USAGE, Not(S1.in_tx["us"]), S1.in_tx["us"] == S0.in_tx["us"]), ["C09"]
