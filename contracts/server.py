"""Contracts of server.Server and server_tap (DESIGN A.3)."""
import z3
from pvc.zs import *  # noqa
from pvc.values import *  # noqa
from pvc.contract import contract
from pvc.state import is_insert, is_update, is_delete, tbl_eq, arrays_equal
from pvc import heap as H
from . import invariants as I
from .appnamespace import hp, registry_wf, MB, MS, MSG, NP, NS

APPS = "Server._apps"
APP_FIELDS = ["heap.AppNamespace._app_id", "heap.AppNamespace._mailboxes"]


def apps_wf(S):
    """H1: a registered namespace carries the app id it is registered under, is allocated,
    and its own registry is well-formed (H2)"""
    m = hp(S, APPS)[H.SERVER]
    return And(
        FA([Str], lambda a: Implies(m[a] != 0, And(S.alloc[m[a]], hp(S, "AppNamespace._app_id")[m[a]] == a)),
           pats=lambda a: [m[a]]),
        FA([Str], lambda a: Implies(m[a] != 0, registry_wf(S, m[a])), pats=lambda a: [m[a]]))


c = contract("server.Server.get_welcome", cls="Server", params={}, result="json", modifies=[], tags=["C17"])


@c.ensures
def _(c):
    yield "configured_welcome", c.result.t == hp(c.pre, "Server._welcome")[c.self_ref], ["C17"]


c = contract("server.Server.get_log_requests", cls="Server", params={}, result="bool", modifies=[], tags=["C17", "C18"])


@c.ensures
def _(c):
    yield "configured", to_term(c.result, "bool") == H.CFG_LOG_REQUESTS, ["C18"]


# ---------------------------------------------------------------- get_app
c = contract("server.Server.get_app", cls="Server", params={"app_id": "str"}, result="ref:AppNamespace",
             modifies=["heap." + APPS, "alloc"] + APP_FIELDS, tags=["C02", "C06", "C11", "C17"])


@c.requires
def _(c):
    yield "the_server", c.self_ref == H.SERVER
    yield "apps_wf", apps_wf(c.pre)


@c.ensures
def _(c):
    S0, S1 = c.pre, c.post
    a = c.a.t("app_id")
    me = c.self_ref
    m0 = hp(S0, APPS)
    old = m0[me][a]
    new = hp(S1, APPS)[me][a]
    res = c.result.t
    yield "returns_registered", And(res == new, new != 0), ["C02", "C11"]
    yield "registered", hp(S1, APPS) == Store(m0, me, Store(m0[me], a, new)), ["C02"]
    fresh_obj = And(Not(S0.alloc[new]), S1.alloc == Store(S0.alloc, new, True),
                    hp(S1, "AppNamespace._app_id") == Store(hp(S0, "AppNamespace._app_id"), new, a),
                    hp(S1, "AppNamespace._mailboxes") == Store(hp(S0, "AppNamespace._mailboxes"), new, K(Str, IntVal(0))))
    same = And(new == old, S1.alloc == S0.alloc, hp(S1, "AppNamespace._app_id") == hp(S0, "AppNamespace._app_id"),
               hp(S1, "AppNamespace._mailboxes") == hp(S0, "AppNamespace._mailboxes"))
    yield "one_namespace_per_app", If(old != 0, same, fresh_obj), ["C02", "C06", "C11"]
    yield "apps_wf", apps_wf(S1), ["C02"]
