"""Witness predicates of the open findings (DESIGN 7.2): for a finding with witness K the check
proves the failing obligation under the extra hypothesis not-K; what still fails is a different
violation and is reported as such."""
from pvc.zs import *  # noqa
from pvc import heap as H
from . import appnamespace as AN


def F1_not_K(S, args, me):
    """no alive bound connection's namespace is without Mailbox objects (those are the ones a sweep drops)"""
    capp = S.heap["WebSocketServer._app"]
    mb = S.heap["AppNamespace._mailboxes"]
    return FA([INT], lambda cn: Implies(And(S.heap["WebSocketServer.alive"][cn], capp[cn] != 0),
                                        EX([Str], lambda k: mb[capp[cn]][k] != 0)), pats=lambda cn: [capp[cn]])


def F8_not_K(S, args, me):
    """the opening side has no side row yet on this mailbox, or the mailbox has at most two side rows"""
    ms = S.t(AN.MS)
    mid, side = args["mailbox_id"].t, args["side"].t
    has = ms.exists(lambda r: And(r.mailbox_id == mid, r.side == side))
    from . import specs
    three = specs.three_distinct(lambda r: And(ms.live[r], ms.cols["mailbox_id"][r] == mid))
    return Not(And(has, three))


def F10_not_K(S, args, me):
    """some nameplate of 1..999 is free in the caller's app"""
    app = S.heap["WebSocketServer._app"][me]
    a = S.heap["AppNamespace._app_id"][app]
    return EX([INT], lambda j: And(1 <= j, j <= 999, Not(AN.U(S, a)(dec(j)))))


def F2_not_K(S, args, me):
    """the mailbox id named by an open / close is not the id of another app's mailbox"""
    from . import websocket as W
    from pvc.contract import Ctx
    from pvc.values import VZ
    msg = args.get("payload") or args.get("msg")
    app = S.heap["WebSocketServer._app"][me]
    a = S.heap["AppNamespace._app_id"][app]
    sub = Ctx(S, S, {"msg": msg, "server_rx": VZ(RealVal(0), "real")}, me, "WebSocketServer")
    return And(Implies(msg.has("mailbox"), Not(AN.foreign_id(S, a, msg.val("mailbox").t))),
               Not(AN.foreign_id(S, a, W.close_target(sub))))


WITNESS = {"F2": F2_not_K, "F1": F1_not_K, "F8": F8_not_K, "F10": F10_not_K}
