"""Outbox specifications (DESIGN 4.5): out[c] is an append-only log; only the entries below its
length mean anything, so clauses speak about lengths, the preserved prefix and the new entries
point-wise (no array equations over the unused tail)."""
from pvc.zs import *  # noqa


def prefix_kept(S0, S1, cn):
    n = S0.out_len[cn]
    return FA([INT], lambda i: Implies(And(0 <= i, i < n), S1.out_buf[cn][i] == S0.out_buf[cn][i]),
              pats=lambda i: [S1.out_buf[cn][i]])


def box_same(S0, S1, cn):
    return And(S1.out_len[cn] == S0.out_len[cn], prefix_kept(S0, S1, cn))


def box_gets(S0, S1, cn, preds):
    """out[cn] grows by exactly len(preds) frames, the j-th satisfying preds[j]; earlier frames stay"""
    n = S0.out_len[cn]
    return And(S1.out_len[cn] == n + len(preds), prefix_kept(S0, S1, cn),
               *[p(S1.out_buf[cn][n + j]) for j, p in enumerate(preds)])


def others_same(S0, S1, me):
    n = lambda cn: S0.out_len[cn]
    return And(FA([INT], lambda cn: Implies(cn != me, S1.out_len[cn] == S0.out_len[cn]), pats=lambda cn: [S1.out_len[cn]]),
               FA([INT, INT], lambda cn, i: Implies(And(cn != me, 0 <= i, i < n(cn)),
                                                    S1.out_buf[cn][i] == S0.out_buf[cn][i]),
                  pats=lambda cn, i: [S1.out_buf[cn][i]]))
