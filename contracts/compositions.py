"""C14: re-sending an acknowledged command is harmless — sequential self-compositions over the
*contracts* (Tier B): run e from S0 giving (answer, S1); run e again from S1 (fresh connection of
the same side, same clock value) giving (answer', S2); prove the second run is admissible, cannot
raise, answers the same and leaves the channel tables as they are (extensional equality on live
rows, and the AUTOINCREMENT counter)."""
import time
import z3
from pvc.zs import *  # noqa
from pvc.values import *  # noqa
from pvc.state import State, tbl_eq
from pvc.contract import REGISTRY, Ctx, make_symbolic
from pvc import heap as H
from pvc import solve

CH_TABLES = ["ch.nameplates", "ch.nameplate_sides", "ch.mailboxes", "ch.mailbox_sides", "ch.messages"]


class Step:
    """one application of a contract: pre -> post, with its clauses"""

    def __init__(self, qual, pre, args, self_ref, tag):
        self.con = con = REGISTRY[qual]
        self.pre = pre
        self.post = pre.copy()
        for comp in con.modifies:
            self.post.havoc(comp, tag)
        res, facts = (None, [])
        if con.result:
            res, facts = make_symbolic(con.result, "res." + tag)
        self.result = res
        self.facts = facts
        self.args = args
        c0 = Ctx(pre, pre, args, self_ref, con.cls)
        c1 = Ctx(pre, self.post, args, self_ref, con.cls, result=res)
        self.requires = con.eval_requires(c0)
        self.ensures = con.eval_ensures(c1, for_caller=True)
        self.raises = con.eval_raises(c1, for_caller=True)

    def normal(self):
        """facts of a normal return"""
        out = list(self.facts) + [t for _, t, _ in self.ensures]
        out += [Not(when) for (exc, name, when, posts, fields, tags, iff) in self.raises if iff]
        return out


def prove(name, hyps, goal, timeout_ms, use_cvc5=True):
    class P:
        pc = hyps
        req_index = {}

    class O:
        nhyps = len(hyps)
        extra_hyps = []
        uses = None
    O.goal = goal
    v = solve.discharge(P, O, timeout_ms, use_cvc5=use_cvc5)
    return {"name": name, "status": v.status, "backend": v.backend, "secs": round(v.secs, 3), "detail": v.detail,
            "kind": "composition"}


def same_channel_state(A, B):
    out = [(k, tbl_eq(A.t(k), B.t(k))) for k in CH_TABLES]
    out.append(("np_next", A.np_next == B.np_next))
    return out


def idempotent(label, qual, argspec, timeout_ms, extra_hyps=lambda s1: [], skip_requires=()):
    """generic: m(args) twice on the same receiver"""
    me = Const("c14.self", INT)
    args = {}
    base = [me != 0, Or(H.CFG_BLUR_NONE, H.CFG_BLUR >= 1)]
    for n, sp in argspec.items():
        v, f = make_symbolic(sp, "c14." + n)
        args[n] = v
        base += f
    S0 = State.symbolic("c14")
    s1 = Step(qual, S0, args, me, "run1")
    hyps = base + [t for _, t in s1.requires] + s1.normal() + extra_hyps(s1)
    s2 = Step(qual, s1.post, args, me, "run2")
    out = []
    for n, t in s2.requires:
        if n in skip_requires:
            hyps = hyps + [t]
            continue
        out.append(prove("C14.%s.second_call_admissible.%s" % (label, n), hyps, t, timeout_ms))
    hyps2 = hyps + [t for _, t in s2.requires]
    for (exc, name, when, posts, fields, tags, iff) in s2.raises:
        if not iff:
            continue
        out.append(prove("C14.%s.second_does_not_raise.%s" % (label, exc), hyps2 + list(s2.facts) + [when] + [t for _, t in posts],
                         BoolVal(False), timeout_ms))
    hyps3 = hyps2 + s2.normal()
    if s1.result is not None and isinstance(s1.result, VZ):
        out.append(prove("C14.%s.same_answer" % label, hyps3, s1.result.t == s2.result.t, timeout_ms))
    for k, t in same_channel_state(s1.post, s2.post):
        out.append(prove("C14.%s.state_unchanged.%s" % (label, k), hyps3, t, timeout_ms))
    return out


def _job(args):
    which, timeout_ms = args
    if which == "claim":
        return idempotent("claim", "server.AppNamespace.claim_nameplate", {"name": "str", "side": "str", "when": "real"}, timeout_ms)
    if which == "release":
        return idempotent("release", "server.AppNamespace.release_nameplate", {"name": "str", "side": "str", "when": "real"}, timeout_ms)
    if which == "open":
        return idempotent("open", "server.AppNamespace.open_mailbox", {"mailbox_id": "str", "side": "str", "when": "real"},
                          timeout_ms)
    return close_composition(timeout_ms)


def c14(timeout_ms=40000):
    import multiprocessing as mp
    with mp.get_context("fork").Pool(4, maxtasksperchild=1) as pool:
        res = pool.map(_job, [(w, timeout_ms) for w in ("close", "claim", "release", "open")], chunksize=1)
    return [o for r in res for o in r]


def close_composition(timeout_ms):
    """close on the connection that opened the mailbox, then the duplicate on a fresh connection of
    the same side: open_mailbox (re-creating the mailbox if the first close deleted it) and close again"""
    out = []
    M = Const("c14.mailbox", INT)
    side = VZ(Const("c14.side", Str), "str")
    when = VZ(Const("c14.when", REAL), "real")
    mood = VOpt(Const("c14.mood.isnone", BOOL), VZ(Const("c14.mood", Str), "str"))
    base = [M != 0, Or(H.CFG_BLUR_NONE, H.CFG_BLUR >= 1)]
    S0 = State.symbolic("c14")
    app = S0.heap["Mailbox._app"][M]
    mid = VZ(S0.heap["Mailbox._mailbox_id"][M], "str")
    a = S0.heap["Mailbox._app_id"][M]
    cargs = {"side": side, "mood": mood, "when": when}
    s1 = Step("server.Mailbox.close", S0, cargs, M, "close1")
    from . import invariants as I
    from .appnamespace import id_not_foreign, registry_wf, MB, MS
    # the first close was a valid close by a side that had opened the mailbox (C14 quantifies over
    # successfully answered commands), at an instant not earlier than any stored arrival time (A15)
    first_valid = [S0.t(MB).exists(lambda r: And(r.app_id == a, r.id == mid.t)),
                   S0.t(MS).exists(lambda r: And(r.mailbox_id == mid.t, r.side == side.t)),
                   I.not_from_future(S0, when.t), I.I3(S0), I.I9a(S0)]
    hyps = base + [t for _, t in s1.requires] + first_valid + s1.normal()
    # F11 witness (open finding): the mailbox survives the first close and its activity time is not `when`
    mb1 = s1.post.t(MB)
    notK = mb1.forall(lambda r: Implies(r.id == mid.t, r.updated == when.t))
    oargs = {"mailbox_id": mid, "side": side, "when": when}
    s2 = Step("server.AppNamespace.open_mailbox", s1.post, oargs, app, "reopen")
    for n, t in s2.requires:
        out.append(prove("C14.close.reopen_admissible.%s" % n, hyps, t, timeout_ms))
    hyps2 = hyps + [t for _, t in s2.requires]
    for (exc, name, whenc, posts, fields, tags, iff) in s2.raises:
        if iff:
            hh = hyps2 + list(s2.facts) + [whenc] + [t for _, t in posts]
            # F8 (open finding): a side of an already crowded mailbox is refused when it re-opens
            from .findings import F8_not_K
            notK8 = F8_not_K(s1.post, oargs, app)
            o = prove("C14.close.reopen_does_not_raise.%s" % exc, hh + [notK8], BoolVal(False), timeout_ms)
            if o["status"] == "discharged":
                o = dict(o, status="known:F8", detail="discharged under the negated witness of F8 (a re-opening side of an already crowded mailbox is refused)")
            out.append(o)
    hyps3 = hyps2 + s2.normal()
    M2 = s2.result.t
    s3 = Step("server.Mailbox.close", s2.post, cargs, M2, "close2")
    heapy = ("GH4", "GH5")
    for n, t in s3.requires:
        if n in heapy:
            hyps3 = hyps3 + [t]        # global heap invariants: re-established by handle_close (event level, C02)
            continue
        out.append(prove("C14.close.second_close_admissible.%s" % n, hyps3, t, timeout_ms))
    hyps4 = hyps3 + [t for _, t in s3.requires] + s3.normal()
    for k, t in same_channel_state(s1.post, s3.post):
        o = prove("C14.close.state_unchanged.%s" % k, hyps4, t, timeout_ms if k != MB else 6000)
        if o["status"] != "discharged" and k == MB:
            o2 = prove("C14.close.state_unchanged.%s" % k, hyps4 + [notK], t, timeout_ms)
            if o2["status"] == "discharged":
                o = dict(o2, status="known:F11", detail="fails outright; discharged under the negated witness of F11")
        out.append(o)
    return out


def canaries(timeout_ms=4000):
    """deliberately false statements that must NOT verify (vacuity guard for the compositions)"""
    me = Const("c14.self", INT)
    args = {n: make_symbolic(sp, "c14." + n)[0] for n, sp in {"name": "str", "side": "str", "when": "real"}.items()}
    S0 = State.symbolic("c14")
    s1 = Step("server.AppNamespace.claim_nameplate", S0, args, me, "run1")
    hyps = [me != 0] + [t for _, t in s1.requires] + s1.normal()
    r = prove("canary.C14.claim_changes_nothing", hyps, tbl_eq(S0.t("ch.nameplate_sides"), s1.post.t("ch.nameplate_sides")), timeout_ms, use_cvc5=False)
    r2 = prove("canary.C14.hypotheses_inconsistent", hyps, BoolVal(False), timeout_ms, use_cvc5=False)
    return [(r["name"], r["status"] == "discharged"), (r2["name"], r2["status"] == "discharged")]
