"""Which obligations decide which property (DESIGN 9), census checks, lemmas,
canaries, known findings."""
import json
import os
import re
import subprocess

HERE = os.path.dirname(os.path.abspath(__file__))

A_PY = ["A1 run-to-completion event handlers", "A2 int/float as mathematical numbers",
        "A3 documented behaviour of builtins (sorted = ordered permutation, random.* and time.time as oracles)",
        "A4 strings: uninterpreted sort with equality, dec/undec for '%d'", "A5 exception catalogue"]
A_SQL = ["A6 relational semantics of the SQL subset under PRAGMA foreign_keys=ON",
         "A7 sqlite3 legacy transaction control (implicit BEGIN before DML, commit() ends it)",
         "A8 atomic durable commit of SQLite (rollback journal, synchronous=FULL)"]
A_FW = ["A9 commands are JSON objects with string identifiers", "A10 Autobahn callback order; sendMessage queues per connection",
        "A12 log.msg/log.err are effect-free (arguments not evaluated)", "A14 generate_mailbox_id() is fresh",
        "A16 blur_usage is None or >= 1"]

SPLIT = {}   # qual -> number of path chunks (parallelism for big functions)

from contracts import census as CENSUS     # noqa: E402
from contracts import lemmas as LEMMAS     # noqa: E402

PROPS = {
    "C04": {
        "level": "proof",
        "census": [CENSUS.get_nameplate_ids_callers],
        "lemmas": [],
        "assumptions": A_PY + A_SQL[:1] + ["A14"],
        "paper_steps": ["induction over events: `allocated` is sent by handle_allocate after allocate_nameplate returned"],
        "explanation": "",
    },
    "C15": {
        "level": "proof",
        "census": [CENSUS.retirement_sites],
        "lemmas": [LEMMAS.sorted_lemmas],
        "assumptions": A_PY + A_SQL + ["A16"],
        "paper_steps": ["C15.count: the double sum of listener-set sizes equals the number of subscribed connections (H3-H5)",
                        "induction over events for 'objects still alive produce none'"],
    },
    "C16": {
        "level": "proof",
        "census": [CENSUS.usage_timestamp_writers],
        "lemmas": [LEMMAS.sorted_lemmas],
        "assumptions": A_PY + A_SQL[:1] + ["A16", "A2: timestamps are reals, x // b is floor division on reals"],
        "paper_steps": [],
    },
}


# ---------------------------------------------------------------------------
# known findings
# ---------------------------------------------------------------------------
def load_findings():
    p = os.path.join(HERE, "known_findings.json")
    if not os.path.exists(p):
        return []
    return json.load(open(p))["findings"]


def match_finding(findings, pid, name):
    for f in findings:
        if f.get("status") != "open" or pid not in f["properties"]:
            continue
        for pat in f["obligations"]:
            if re.search(pat, name):
                return f
    return None


_present_cache = {}


def finding_present(f):
    """the recorded failing history still fails on the real code (native run)"""
    if f["id"] in _present_cache:
        return _present_cache[f["id"]]
    script = os.path.join(HERE, f["replay"])
    try:
        r = subprocess.run(["/venv/bin/python", script], capture_output=True, text=True, timeout=120,
                           env=dict(os.environ, PYTHONPATH=os.path.join(os.environ.get("PVC_REPO", "/repo"), "src")))
        ok = r.returncode == 0 and "PRESENT" in r.stdout
    except Exception:
        ok = False
    _present_cache[f["id"]] = ok
    return ok


def try_counterexample(pid, name, obls):
    """hook for finite-mode counterexample search + native replay; None = no failing input found"""
    try:
        from pvc import cex
    except ImportError:
        return None
    try:
        return cex.search(pid, name, obls)
    except Exception as e:     # a crash in the search never turns into a verdict
        return None
