"""Which obligations decide which property (DESIGN 9), census checks, lemmas,
canaries, known findings."""
import json
import os
import re
import subprocess

HERE = os.path.dirname(os.path.abspath(__file__))

A_PY = ["A1 run-to-completion event handlers", "A2 int/float as mathematical numbers",
        "A3 documented behaviour of builtins (sorted = ordered permutation, random.* and time.time as oracles)",
        "A4 strings: uninterpreted sort with equality, dec/undec for '%d'; any other formatted string / f-string is some unconstrained string; "
        "int(s) raises ValueError unless s parses, and int('%d' % i) == i", "A5 exception catalogue",
        "frame.maywrite obligations are syntactic (Dafny-style modifies): every statement that may write a heap field of self or a table names a component of the modifies clause",
        "branches are taken without asking the solver; a path that ends in an unsupported construct is dropped only if its quantifier-free path condition is unsatisfiable"]
A_SQL = ["A6 relational semantics of the SQL subset under PRAGMA foreign_keys=ON (statements outside the original `col=? AND ...` forms: "
         "three-valued WHERE expressions, column lists, joins on a PRIMARY KEY whose uniqueness SQLite enforces, IN sub-selects - pvc/sqlx.py)",
         "A7 sqlite3 legacy transaction control (implicit BEGIN before DML, commit() ends it)",
         "A8 atomic durable commit of SQLite (rollback journal, synchronous=FULL)"]
A_FW = ["A9 commands are JSON objects with string identifiers", "A10 Autobahn callback order; sendMessage queues per connection",
        "A12 log.msg/log.err are effect-free (arguments not evaluated)", "A14 generate_mailbox_id() is fresh",
        "A16 blur_usage is None or >= 1"]

SPLIT = {"server_websocket.WebSocketServer.onMessage": 14, "server_websocket.WebSocketServer.handle_close": 6,
         "server.AppNamespace.claim_nameplate": 4, "server.Mailbox.close": 3, "server.AppNamespace.prune": 3,
         "server.AppNamespace.open_mailbox": 2, "server_websocket.WebSocketServer.handle_claim": 2,
         "server_websocket.WebSocketServer.handle_open": 2}   # qual -> number of path chunks

from contracts import census as CENSUS     # noqa: E402
from contracts import lemmas as LEMMAS     # noqa: E402

from contracts import tap as TAP           # noqa: E402
from contracts import dbfiles as DBFILES   # noqa: E402
from contracts import compositions as COMPOSE   # noqa: E402
from contracts import depends as DEPENDS   # noqa: E402

DBFUNCS = ["server.Mailbox.open", "server.Mailbox._touch", "server.Mailbox.get_messages", "server.Mailbox._add_message",
           "server.Mailbox.add_message", "server.Mailbox.close", "server.AppNamespace._get_nameplate_ids",
           "server.AppNamespace._add_mailbox", "server.AppNamespace.open_mailbox", "server.AppNamespace.claim_nameplate",
           "server.AppNamespace.allocate_nameplate", "server.AppNamespace.release_nameplate", "server.AppNamespace.prune",
           "server.AppNamespace.log_client_version", "server.AppNamespace._summarize_nameplate_and_store",
           "server.AppNamespace._summarize_mailbox_and_store"]
INDUCTION = "induction over events (connect, cmd, disconnect, sweep, restart): Inv holds initially, every event handler requires and re-establishes it"

PROPS = {
    "C01": {"census": [CENSUS.messages_writers], "assumptions": A_PY + A_SQL + A_FW,
            "paper_steps": [INDUCTION, "restart: C01 is stated over the database only (A8)"]},
    "C02": {"census": [CENSUS.heap_fields], "lemmas": [LEMMAS.induction_base], "assumptions": A_PY + A_SQL + A_FW, "conditioned_on": ["F1"],
            "paper_steps": [INDUCTION, "Sub(a,m) is the listener set of the one registered Mailbox object (GH4, GH5, H1-H3)"]},
    "C03": {"census": [CENSUS.heap_fields], "lemmas": [LEMMAS.distinct_mailboxes], "assumptions": A_PY + A_SQL + ["A14 fresh mailbox ids"],
            "paper_steps": [INDUCTION, "ids of retired incarnations differ from new ones by A14"]},
    "C04": {"census": [CENSUS.get_nameplate_ids_callers], "assumptions": A_PY + A_SQL[:1] + ["A14"],
            "paper_steps": [INDUCTION]},
    "C05": {"assumptions": A_PY + A_SQL + A_FW + ["A15 monotone clock; no stored arrival time is later than a clock read"],
            "paper_steps": [INDUCTION, "C05.at_most_two: a side is subscribed / told the id only on a non-crowded exit (<= 2 side rows), and side rows of a live mailbox or nameplate are only ever added (delete_complete clauses): so at most two sides are ever granted"]},
    "C06": {"functions_all": DBFUNCS, "assumptions": A_PY + A_SQL, "conditioned_on": ["F2"],
            "paper_steps": ["C06.noninterference: every statement's effect is given exactly (is_insert / is_update / is_delete with predicates keyed by the app, or by ids that the invariants I2, I6, I7 tie to the app), no_exception obligations use only invariants: partitioned state gives trace equality (two-line lemma, DESIGN 9)",
                            "stored rows are compared up to renaming of rowids / the AUTOINCREMENT nameplates.id"]},
    "C07": {"assumptions": A_PY + A_SQL, "paper_steps": [INDUCTION]},
    "C08": {"assumptions": A_PY + A_SQL + A_FW, "paper_steps": [INDUCTION]},
    "C09": {"census": [CENSUS.pragmas, CENSUS.send_is_only_emitter], "assumptions": A_PY + A_SQL + A_FW,
            "paper_steps": ["not in_tx means the file equals the state the server acts on (A7, A8)"]},
    "C10": {"census": [CENSUS.pragmas], "lemmas": [LEMMAS.drains], "assumptions": A_PY + A_SQL,
            "not_covered": ["the crash-resume compositions (re-sent claim/release/open/close reach the same state) are not machine-checked; the per-function idempotence clauses (noop / existing row untouched) are"],
            "paper_steps": ["Recoverable = I1-I7, I8a, I9a holds at every commit point; every event handler is verified under exactly these invariants, so a restarted server runs on them without internal errors",
                            "C10.drains: see lemma"]},
    "C12": {"census": [TAP.constants, CENSUS.heap_fields], "lemmas": [LEMMAS.timing], "assumptions": A_PY + A_SQL + ["A11 TimerService calls expire every P seconds", "A15"],
            "conditioned_on": ["F1"], "paper_steps": [INDUCTION, "has_listeners <=> Sub non-empty (GH4, GH5)"]},
    "C13": {"census": [TAP.constants], "lemmas": [LEMMAS.drains, LEMMAS.timing],
            "assumptions": A_PY + A_SQL + ["A11", "A15", "A5: a failing sweep is modelled as prune_all_apps raising any Exception at any point"],
            "paper_steps": [INDUCTION, "liveness is decided as safety: the sweep whose cutoff is at or past a mailbox's last activity deletes it"]},
    "C15": {"census": [CENSUS.retirement_sites], "lemmas": [LEMMAS.sorted_lemmas], "assumptions": A_PY + A_SQL + ["A16"],
            "conditioned_on": ["F1"],
            "paper_steps": ["C15.count: the double sum of listener-set sizes equals the number of subscribed connections (GH4, GH5, H3)",
                            "one record per retirement in prune: one per loop iteration (loop step clauses), one iteration per retired object"]},
    "C16": {"census": [CENSUS.usage_timestamp_writers, TAP.constants], "lemmas": [LEMMAS.sorted_lemmas],
            "assumptions": A_PY + A_SQL[:1] + ["A16", "A2: timestamps are reals, x // b is floor division on reals"], "paper_steps": []},
    "C17": {"census": [CENSUS.send_is_only_emitter, CENSUS.make_server_welcome], "lemmas": [LEMMAS.induction_base], "assumptions": A_PY + A_SQL + A_FW, "conditioned_on": ["F2", "F10"],
            "paper_steps": [INDUCTION, "identifiers containing lone surrogates are outside A9 (DESIGN 11)"]},
    "C18": {"census": [CENSUS.get_nameplate_ids_callers, CENSUS.allow_list_readers, TAP.constants, DEPENDS.config_free],
            "canaries": [DEPENDS.canary_config],
            "functions_all": ["server.AppNamespace.get_nameplate_ids", "server_websocket.WebSocketServer.handle_list"],
            "assumptions": A_PY + A_SQL + A_FW,
            "paper_steps": ["C18.config_independent: every contract is proved for symbolic allow_list / usage_db / blur_usage / log_requests, and no postcondition about the channel tables, the outboxes or connection state mentions them (except handle_list's answer): equal runs (DESIGN 9)"]},
    "C11": {"census": [DEPENDS.registry_free, CENSUS.heap_fields], "canaries": [DEPENDS.canary], "lemmas": [LEMMAS.induction_base],
            "functions_all": ["server_websocket.WebSocketServer." + h for h in DEPENDS.EVENTS] + [
                "server_websocket.WebSocketServer.onClose", "server.Server.get_app", "server.AppNamespace.open_mailbox",
                "server.Server.prune_all_apps", "server.AppNamespace.prune", "server_tap.makeService.<locals>.expire"],
            "assumptions": A_PY + A_SQL + A_FW, "conditioned_on": ["F1"],
            "paper_steps": ["C11.simulation: the relation 'same database, same connections, same Sub, both heaps satisfy the heap invariants' is preserved by every event because every client-visible conjunct of every handler postcondition is free of registry contents (census.depends.*), the contracts are exact (a post-state is determined up to the choice of fresh rowids / object references), and related states give equal frames",
                            "restart = heap reset to empty with all connections dead: every heap invariant is quantified over alive connections / registered objects and holds vacuously",
                            "the sweep's database effect depends on the registries only through 'has listeners', which is Sub non-empty (GH4, GH5); its registry effect (dropping idle namespaces) is the open finding F1"]},
    "C14": {"lemmas": [COMPOSE.c14], "canaries": [COMPOSE.canaries],
            "assumptions": A_PY + A_SQL + ["A15", "the duplicate arrives at the same virtual instant (same `when`)"],
            "conditioned_on": ["F2", "F8", "F11"],
            "not_covered": ["GH4/GH5 at the second close are taken from the event level (handle_close re-establishes them, C02)"],
            "paper_steps": ["the compositions are over the contracts of claim_nameplate, release_nameplate, open_mailbox and Mailbox.close, which the real code is verified against (Tier A); a fresh connection's handler adds only the once-only flags, which are per connection",
                            "answers to later commands do not differ: every handler's postcondition is a function of the database, the acting connection and Sub (paper step shared with C11)"]},
    "C19": {"lemmas": [DBFILES.c19],
            "assumptions": ["A13 os.path.exists / tempfile.mkstemp / os.rename (atomic replace within a directory) / shutil.copy behave as documented; a crash is process death between two such calls",
                            "A6/A7 sqlite3: legacy transaction control, executescript commits first and autocommits each statement unless the script says BEGIN; an empty file is an empty database; a non-database file raises DatabaseError at the first statement that reads it",
                            "A8 atomic durable commit", "file contents are partitioned into classes (absent / not a database / database with given DDL set and version rows); the content inside a class is symbolic"],
            "paper_steps": ["directory-entry durability across power loss is not modelled"],
            "explanation": "symbolic execution of the real ASTs of database.py over the file-system model; exhaustive over content classes x crash points"},
    "C20": {"lemmas": [DBFILES.c20],
            "assumptions": ["A13", "A6/A7 (executescript semantics incl. explicit BEGIN/COMMIT)", "A8", "records of pre-existing tables are one opaque symbolic value"],
            "paper_steps": [], "explanation": "as C19; the real upgrade script and schema files are parsed on every run"},
}
for _p in PROPS.values():
    _p.setdefault("level", "proof")


def config_readers():
    """C18: the functions under contract that read a configuration option (listing, usage database, blur, request
    logging) - computed from the ASTs on every run, so a function that starts to read one is pulled in"""
    import ast
    from contracts.census import package_functions
    from pvc.contract import REGISTRY
    out = []
    for mod, qual, fd in package_functions():
        if qual in REGISTRY and hasattr(REGISTRY[qual], "tags") and any(
                isinstance(n, ast.Attribute) and n.attr in ("_usage_db", "_blur_usage", "_allow_list", "_log_requests")
                and isinstance(n.ctx, ast.Load) for n in ast.walk(fd)):
            out.append(qual)
    return out


PROPS["C18"]["functions_all_dynamic"] = config_readers
PROPS["C16"]["census"] = list(PROPS["C16"].get("census", [])) + [CENSUS.blur_option]
# new in-memory state (a cache, a memo) undermines every statement about what the server stores and answers:
# the census of constructor attributes belongs to every property about the running server
for _pid in ["C%02d" % i for i in range(1, 19)]:
    if CENSUS.heap_fields not in PROPS[_pid].get("census", []):
        PROPS[_pid]["census"] = list(PROPS[_pid].get("census", [])) + [CENSUS.heap_fields]
for _pid in ("C10", "C11", "C12", "C13", "C19"):
    PROPS[_pid]["census"] = list(PROPS[_pid].get("census", [])) + [CENSUS.event_sources]
# C10's last sentence (re-sent claim / release / open / close after a crash reach the same answers and state) is C14's
# statement for the crash case: the clauses C14 rests on count for C10 too, and so do C14's compositions
TAG_ALSO = {"C10": ["C14"]}
USAGE_CONTENT_ONLY = {"C15", "C16"}
# obligations attributed by their own tags only, even in a function a property takes wholesale (functions_all):
# an exception escaping `expire` is about the sweeps continuing (C10, C13)
NARROW_ATTRIBUTION = {("server_tap.makeService.<locals>.expire", "no_exception")}
PROPS["C10"]["lemmas"] = PROPS["C10"]["lemmas"] + [COMPOSE.c14]
PROPS["C10"]["canaries"] = [COMPOSE.canaries]
PROPS["C10"]["conditioned_on"] = ["F8", "F11"]
PROPS["C10"]["not_covered"] = ["GH4/GH5 at the second close of the close composition are taken from the event level (C02)"]


def functions_all(pid):
    spec = PROPS[pid]
    out = list(spec.get("functions_all", []))
    if spec.get("functions_all_dynamic"):
        out += [q for q in spec["functions_all_dynamic"]() if q not in out]
    return out

# ---------------------------------------------------------------------------
# known findings
# ---------------------------------------------------------------------------
def load_findings():
    p = os.path.join(HERE, "known_findings.json")
    if not os.path.exists(p):
        return []
    return json.load(open(p))["findings"]


def match_finding(findings, pid, name):
    for f in findings:
        if f.get("status") != "open":
            continue
        for pat in f["obligations"]:
            if re.search(pat, name):
                return f
    return None


_present_cache = {}


def finding_present(f):
    """the recorded failing history still fails on the real code (native run)"""
    if f["id"] in _present_cache:
        return _present_cache[f["id"]]
    script = os.path.join(HERE, f["replay"])
    try:
        r = subprocess.run(["/venv/bin/python", script], capture_output=True, text=True, timeout=120,
                           env=dict(os.environ, PYTHONPATH=os.path.join(os.environ.get("PVC_REPO", "/repo"), "src")))
        ok = r.returncode == 0 and "PRESENT" in r.stdout
    except Exception:
        ok = False
    _present_cache[f["id"]] = ok
    return ok


def try_counterexample(pid, name, obls):
    """hook for finite-mode counterexample search + native replay; None = no failing input found"""
    try:
        from pvc import cex
    except ImportError:
        return None
    try:
        return cex.search(pid, name, obls)
    except Exception as e:     # a crash in the search never turns into a verdict
        return None


def thorough_extras(pid):
    """thorough tier: seeded-mutant self-test for this property, validation of the string axioms against
    CPython, native run of every recorded finding history"""
    out = {"mutants": {}, "assumption_checks": [], "findings_native": {}}
    import sys
    sys.path.insert(0, os.path.join(HERE, "tools"))
    try:
        import run_mutants
        from mutants.catalog import MUTANTS
        ids = [m["id"] for m in MUTANTS if pid in m.get("props", [])]
        if ids:
            for mid, status, detail in run_mutants.run(ids, jobs=2):
                out["mutants"][mid] = status
    except Exception as e:      # the self-test never turns into a verdict about /repo
        out["mutants"]["(self-test failed to run)"] = "ERROR %s" % e
    # A4: dec is injective, has no leading zero, digit counts as axiomatised
    bad = []
    seen = {}
    for i in range(-10, 10 ** 6 + 1):
        s_ = "%d" % i
        if s_ in seen or s_ == "":
            bad.append(i)
        seen[s_] = i
        if i >= 1:
            nd = len(s_)
            if s_[0] == "0" or not ((1 <= i <= 9) == (nd == 1) and (10 <= i <= 99) == (nd == 2) and (100 <= i <= 999) == (nd == 3)
                                    and ((1000 <= i <= 999999) == (4 <= nd <= 6))) or int(s_) != i:
                bad.append(i)
    out["assumption_checks"].append(("assumption.A4.dec_axioms_hold_in_cpython[-10..10^6]", not bad, str(bad[:5])))
    for f in load_findings():
        if pid in f["properties"]:
            out["findings_native"][f["id"]] = ("present" if finding_present(f) else "absent") + " (status %s)" % f["status"]
    # the independent native demonstrations written for this property (seeded/*/demo.py) must pass on this tree
    import shutil, tempfile
    for n in sorted(os.listdir(os.path.join(HERE, "seeded"))):
        d = os.path.join(HERE, "seeded", n)
        try:
            meta = json.load(open(os.path.join(d, "meta.json")))
        except Exception:
            continue
        if meta.get("property") != pid:
            continue
        tmp = tempfile.mkdtemp(prefix="pvc-demo-", dir="/var/tmp")
        try:
            shutil.copy(os.path.join(d, "demo.py"), tmp)
            r = subprocess.run(["/venv/bin/python", "demo.py"], cwd=tmp, capture_output=True, text=True, timeout=900,
                               env=dict(os.environ, PYTHONPATH=os.path.join(os.environ.get("PVC_REPO", "/repo"), "src")))
            out.setdefault("native_demos", {})[n] = {"exit": r.returncode, "last_line": (r.stdout.strip().splitlines() or [""])[-1][:200]}
        except Exception as e:
            out.setdefault("native_demos", {})[n] = {"exit": -1, "last_line": str(e)[:200]}
        finally:
            shutil.rmtree(tmp, ignore_errors=True)
    # differential cross-check of the contracts (and with them the SQL semantics) against CPython + SQLite
    DIFF_TARGETS = {"Mailbox.open": ["C05", "C08", "C12", "C14"], "Mailbox._add_message": ["C01", "C02", "C09", "C12"],
                    "AppNamespace.release_nameplate": ["C07", "C14", "C15", "C16"],
                    "AppNamespace.claim_nameplate": ["C03", "C05", "C07", "C10", "C14"],
                    "AppNamespace._get_nameplate_ids": ["C04", "C06", "C18"],
                    "AppNamespace.prune": ["C12", "C13", "C15", "C06", "C10"]}
    targets = [t for t, ps in DIFF_TARGETS.items() if pid in ps]
    if targets:
        try:
            from pvc import diff
            seed = int(os.environ.get("VERIF_SEED", "0") or 0)
            out["diffcheck"] = diff.run_all(seed, 30, targets)
        except Exception as e:
            out["diffcheck"] = {"error": str(e)[:300]}
    return out
