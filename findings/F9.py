"""F9: the usage-db upgrade script runs statement by statement in autocommit mode; a crash strictly
inside it leaves a half-upgraded file on which the next start fails ("table already exists" /
TypeError on the empty version table) and overwrites the v1 backup with the half-upgraded file."""
import sys, os, sqlite3, tempfile, shutil, hashlib
sys.path.insert(0, os.path.join(os.environ.get("PVC_REPO", "/repo"), "src"))
from wormhole_mailbox_server import database as D

def sha(p): return hashlib.sha256(open(p, "rb").read()).hexdigest()
d = tempfile.mkdtemp(prefix="pvc-f9-", dir="/var/tmp")
try:
    script = D.get_upgrader("usage", 2)
    bad = []
    # the states a kill can leave: replay the real start-up and cut it after the k-th committed write,
    # by snapshotting the file from SQLite's commit hook is not available in Python; instead run the
    # upgrader's statements the way executescript does and stop after k of them
    stmts = [s.strip() for s in script.split(";") if s.strip()]
    explicit_tx = any(s.upper().startswith("BEGIN") for s in stmts)
    for k in range(1, len(stmts)):
        p = os.path.join(d, "u%d.sqlite" % k)
        db = sqlite3.connect(p); db.executescript(D.get_schema("usage", 1)); db.execute("INSERT INTO version (version) VALUES (1)")
        db.execute("INSERT INTO nameplates VALUES ('a',1,2,3,'happy')"); db.commit(); db.close()
        orig = sha(p)
        shutil.copy(p, p + "-backup-v1")                      # what _get_db does before upgrading
        db = sqlite3.connect(p, isolation_level=None)         # autocommit, as executescript runs the script
        try:
            for s in stmts[:k]:
                db.execute(s)
        finally:
            db.close()                                        # crash: an open transaction is rolled back
        try:
            db2 = D.create_or_upgrade_usage_db(p)
            v = [r["version"] for r in db2.execute("select version from version").fetchall()]
            n = db2.execute("select count(*) as c from nameplates").fetchone()["c"]
            ok = v == [2] and n == 1 and sha(p + "-backup-v1") == orig
            if not ok:
                bad.append("crash after %d statement(s): version rows %s, records %d, backup original: %s" % (k, v, n, sha(p + "-backup-v1") == orig))
        except Exception as e:
            bad.append("crash after %d statement(s): restart fails with %s: %s; backup original: %s" % (k, type(e).__name__, e, sha(p + "-backup-v1") == orig))
    print(("PRESENT: " if bad else "ABSENT: ") + ("; ".join(bad) if bad else "every interrupted upgrade is completed by the next start, backup intact"))
    sys.exit(0 if bad else 1)
finally:
    shutil.rmtree(d, ignore_errors=True)
