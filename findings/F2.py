"""F2: mailboxes.id is a global primary key but existence is tested per app: `open` of a
mailbox id that another app uses raises IntegrityError out of onMessage."""
from drv import *
srv, f = mk()
a = conn(f, "A", "s1"); a.cmd(type="open", mailbox="m")
b = conn(f, "B", "s9")
try:
    out = b.cmd(type="open", mailbox="m")
    verdict(False, "second app opened the same id: %r" % (out,))
except Exception as e:
    verdict(True, "open of an id used by another app raised %s: %s (in_transaction=%s)" % (type(e).__name__, e, srv._db.in_transaction))
