"""F7: a nameplate deleted because its mailbox was closed gets no usage record."""
from drv import *
import tempfile, os
d = tempfile.mkdtemp(prefix="pvc-f7-", dir="/var/tmp")
try:
    srv, f = mk(db=os.path.join(d, "c.sqlite"), usage=os.path.join(d, "u.sqlite"))
    a = conn(f, "A", "s1"); a.cmd(type="claim", nameplate="1"); mid = a.frames[-1]["mailbox"]
    a.cmd(type="open", mailbox=mid)
    a.cmd(type="close", mood="happy")        # nameplate never released: retired with its mailbox
    left = dump(srv._db)["nameplates"]
    n_np = len(srv._usage_db.execute("SELECT * FROM `nameplates`").fetchall())
    n_mb = len(srv._usage_db.execute("SELECT * FROM `mailboxes`").fetchall())
    verdict(left == [] and n_mb == 1 and n_np != 1, "nameplate retired with its mailbox: usage nameplates rows=%d (expected 1), usage mailboxes rows=%d" % (n_np, n_mb))
finally:
    import shutil; shutil.rmtree(d, ignore_errors=True)
