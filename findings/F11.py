"""F11: a `close` re-sent on a fresh connection of the same side (same virtual instant) re-opens the
mailbox first and thereby refreshes mailboxes.updated; the original close on the opening connection
does not: the stored state differs in that timestamp although the command was merely duplicated."""
from drv import *
from unittest import mock

def run(dup):
    srv, f = mk()
    with mock.patch("time.time", return_value=0.0):
        a = conn(f, "A", "s1"); a.cmd(type="open", mailbox="m")
        b = conn(f, "A", "s2"); b.cmd(type="open", mailbox="m")
    with mock.patch("time.time", return_value=100.0):
        a.cmd(type="close", mood="happy")
        if dup:
            a2 = conn(f, "A", "s1"); a2.cmd(type="close", mailbox="m", mood="happy")
    return dump(srv._db)

one, two = run(False), run(True)
verdict(one != two, "channel tables after close: mailboxes=%s; after close + duplicate: mailboxes=%s" % (one["mailboxes"], two["mailboxes"]))
