"""F3: both sides claim a nameplate and open its mailbox, neither releases, both close:
the second close raises IntegrityError (no `closed`, transaction left open)."""
from drv import *
srv, f = mk()
a = conn(f, "A", "s1"); a.cmd(type="claim", nameplate="1"); mid = a.frames[-1]["mailbox"]
b = conn(f, "A", "s2"); b.cmd(type="claim", nameplate="1")
a.cmd(type="open", mailbox=mid); b.cmd(type="open", mailbox=mid)
a.cmd(type="close", mood="happy")
try:
    out = b.cmd(type="close", mood="happy")
    ok = any(fr.get("type") == "closed" for fr in out) and not srv._db.in_transaction
    verdict(not ok, "second close answered %r, in_transaction=%s" % (out, srv._db.in_transaction))
except Exception as e:
    verdict(True, "second close raised %s: %s; in_transaction=%s" % (type(e).__name__, e, srv._db.in_transaction))
