"""Native driver for finding reproductions: the real Server / WebSocketServer
classes from $PVC_REPO/src (default /repo/src), with only sendMessage captured."""
import json, os, sys, tempfile, time
sys.path.insert(0, os.path.join(os.environ.get("PVC_REPO", "/repo"), "src"))
from wormhole_mailbox_server import server as S, server_websocket as W, database as D

class Conn(W.WebSocketServer):
    def __init__(self, factory, name):
        W.WebSocketServer.__init__(self)
        self.factory = factory; self.name = name; self.frames = []
    def sendMessage(self, payload, isBinary=False):
        self.frames.append(json.loads(payload.decode()))
    def cmd(self, **kw):
        n = len(self.frames)
        self.onMessage(json.dumps(kw).encode(), False)
        return [{k: v for k, v in f.items() if k != "server_tx"} for f in self.frames[n:]]

class Fac:
    def __init__(self, server): self.server = server; self.reactor = None

def mk(db=":memory:", usage=None, **kw):
    cdb = D.create_or_upgrade_channel_db(db)
    udb = D.create_or_upgrade_usage_db(usage)
    srv = S.make_server(cdb, usage_db=udb, **kw)
    return srv, Fac(srv)

def conn(f, app, side):
    x = Conn(f, side); x.onOpen(); x.cmd(type="bind", appid=app, side=side); return x

def dump(db):
    return {t: db.execute("SELECT * FROM `%s`" % t).fetchall()
            for t in ["nameplates", "nameplate_sides", "mailboxes", "mailbox_sides", "messages"]}

def verdict(present, what):
    print(("PRESENT: " if present else "ABSENT: ") + what)
    sys.exit(0 if present else 1)
