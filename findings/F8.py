"""F8: after a third side's attempt on a mailbox (its side row stays), the first two sides are
refused too when they reconnect and re-open."""
from drv import *
srv, f = mk()
a = conn(f, "A", "s1"); a.cmd(type="open", mailbox="m")
b = conn(f, "A", "s2"); b.cmd(type="open", mailbox="m")
z = conn(f, "A", "s3"); zo = z.cmd(type="open", mailbox="m")
a2 = conn(f, "A", "s1"); out = a2.cmd(type="open", mailbox="m")
refused = any(fr.get("type") == "error" and fr.get("error") == "crowded" for fr in out)
verdict(refused, "third side answered %r; first side re-opening on a new connection answered %r" % (
    [fr.get("error", fr["type"]) for fr in zo], [fr.get("error", fr["type"]) for fr in out]))
