"""F4: the last close of a mailbox deletes the closing side's claims on unrelated
nameplates (same side string), of this and of other apps."""
from drv import *
srv, f = mk()
a = conn(f, "A", "s1"); a.cmd(type="claim", nameplate="1"); m1 = a.frames[-1]["mailbox"]
a2 = conn(f, "A", "s1"); a2.cmd(type="claim", nameplate="2")
bb = conn(f, "B", "s1"); bb.cmd(type="claim", nameplate="7")
before = len(dump(srv._db)["nameplate_sides"])
a.cmd(type="open", mailbox=m1); a.cmd(type="close")
d = dump(srv._db)
names = sorted(r["name"] for r in d["nameplates"])
sides = len(d["nameplate_sides"])
# expected: nameplates 2 (app A) and 7 (app B) keep their one claim each
verdict(sides != 2 or names != ["2", "7"], "after closing mailbox of nameplate 1: nameplates=%s, nameplate_sides rows=%d (was %d)" % (names, sides, before))
