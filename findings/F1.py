"""F1: a connection that is bound but holds no mailbox, in an app whose namespace has no Mailbox
objects (e.g. right after a restart), loses its namespace at the next sweep; a later bind creates a
second namespace for the same app; the two connections then subscribe to different Mailbox objects
for the same mailbox id and do not see each other's adds."""
from drv import *
srv, f = mk()
x = conn(f, "A", "s1")
# rows of app A exist (as after a restart), but A's namespace holds no Mailbox object
srv._db.execute("INSERT INTO mailboxes (app_id,id,updated,for_nameplate) VALUES ('A','zzz',?,0)", (time.time(),))
srv._db.execute("INSERT INTO mailbox_sides (mailbox_id,opened,side,added) VALUES ('zzz',1,'s9',?)", (time.time(),))
srv._db.commit()
now = time.time()
srv.prune_all_apps(now, now - 660)
dropped = x._app is not srv._apps.get("A")
x.cmd(type="open", mailbox="m1")
y = conn(f, "A", "s2"); y.cmd(type="open", mailbox="m1")
y.cmd(type="add", phase="p", body="00")
got = [fr for fr in x.frames if fr["type"] == "message"]
verdict(dropped and not got, "after a sweep the bound connection's namespace is no longer the registered one (%s); "
        "its subscription to m1 received %d of 1 message added by the other side" % (dropped, len(got)))
