"""F10: allocate with all of 1..999 taken and the random probes landing on taken ids raises
ValueError out of onMessage (randrange pinned to a taken id to make it deterministic)."""
from drv import *
from unittest import mock
srv, f = mk()
app = srv.get_app("A")
for i in range(1, 1001):
    app.claim_nameplate(str(i), "s%d" % i, 0)
a = conn(f, "A", "zz")
with mock.patch("random.randrange", return_value=1000):
    try:
        out = a.cmd(type="allocate")
        verdict(False, "allocate answered %r" % (out,))
    except Exception as e:
        verdict(True, "allocate raised %s: %s" % (type(e).__name__, e))
