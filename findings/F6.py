"""F6: a kill right after the FIRST commit of a claim that creates the nameplate leaves a mailbox
with no side row on disk; with a usage database every later sweep of the restarted server raises
IndexError (in _summarize_mailbox) before deleting anything, so the store never drains."""
from drv import *
import shutil, tempfile
d = tempfile.mkdtemp(prefix="pvc-f6-", dir="/var/tmp")
try:
    p = os.path.join(d, "c.sqlite")
    srv, f = mk(p, os.path.join(d, "u.sqlite"))
    a = conn(f, "A", "s1")
    real = srv._db

    class W:            # snapshots the database file as a crash right after each commit would leave it
        def __init__(s): s.n = 0
        def __getattr__(s, k): return getattr(real, k)
        def commit(s):
            real.commit(); s.n += 1
            shutil.copy(p, p + ".crash%d" % s.n)
    w = W(); srv._db = w; a._app._db = w
    a.cmd(type="claim", nameplate="1")
    bad = []
    for k in range(1, w.n + 1):
        db2 = D.create_or_upgrade_channel_db(p + ".crash%d" % k)
        rows = dump(db2)
        sideless = [m["id"] for m in rows["mailboxes"] if not any(s["mailbox_id"] == m["id"] for s in rows["mailbox_sides"])]
        srv2 = S.make_server(db2, usage_db=D.create_or_upgrade_usage_db(os.path.join(d, "u%d.sqlite" % k)))
        now = time.time() + 5000
        err = None
        try:
            srv2.prune_all_apps(now, now - 660)
        except Exception as e:
            err = "%s: %s" % (type(e).__name__, e)
        left = sum(len(v) for v in dump(db2).values())
        if sideless or err or left:
            bad.append("crash after commit #%d of claim: side-less mailboxes=%s, sweep after restart: %s, rows left=%d" % (k, sideless, err, left))
    verdict(bool(bad), "; ".join(bad) if bad else "every commit point of claim leaves a database the restarted server sweeps empty")
finally:
    shutil.rmtree(d, ignore_errors=True)
