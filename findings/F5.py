"""F5: the last side closes a mailbox while another connection (second connection of the
same side) is still subscribed: that connection keeps a stale Mailbox handle, its `add`
stores a message whose mailbox row is gone; no sweep removes it and it is replayed to
whoever opens that id next."""
from drv import *
srv, f = mk()
c1 = conn(f, "A", "s1"); c1.cmd(type="open", mailbox="m")
c2 = conn(f, "A", "s1"); c2.cmd(type="open", mailbox="m")
c1.cmd(type="close")
out = c2.cmd(type="add", phase="p", body="ff")
d = dump(srv._db)
orphans = [m for m in d["messages"] if not any(b["id"] == m["mailbox_id"] for b in d["mailboxes"])]
now = time.time() + 10000
srv.prune_all_apps(now, now - 660); srv.prune_all_apps(now + 300, now + 300 - 660)
left = dump(srv._db)["messages"]
c3 = conn(f, "A", "s5"); replay = [fr for fr in c3.cmd(type="open", mailbox="m") if fr["type"] == "message"]
verdict(bool(orphans) or bool(left) or bool(replay),
        "add on the stale handle answered %r; orphan messages=%d, after two sweeps=%d, replayed to a new opener=%d"
        % ([fr["type"] for fr in out], len(orphans), len(left), len(replay)))
