#!/usr/bin/env python3
"""check.py <property> [--tier quick|thorough]   — decide one property on /repo's
working tree by discharging its verification conditions (DESIGN 7, 12).

exit 0  every obligation of the property discharged (known findings aside)
exit 1  VIOLATION property=<id> replay=<path>   (one line per failed obligation group)
exit 2  UNDECIDED (unsupported construct / uncontracted callee / new obligation not decided)
exit 3  CHECKER-ERROR (internal failure, vacuity: zero obligations, canary verified)
"""
import json
import os
import re
import subprocess
import sys
import time

HERE = os.path.dirname(os.path.abspath(__file__))
OUT = os.environ.get("PVC_OUT", HERE)      # (scratch runs of the self-test tools write their evidence elsewhere)
sys.path.insert(0, HERE)
os.chdir(HERE)

from pvc import run as R            # noqa: E402
from pvc.contract import REGISTRY   # noqa: E402


def do_replay(path):
    """check.py --replay <replay file>: show the recorded failure, re-run its counterexample on the real code if it has
    one, and decide again on the current tree whether the obligation still fails (exit 1) or is discharged (exit 0)"""
    import contextlib, io, subprocess
    full = next((c for c in (path, os.path.join(OUT, path), os.path.join(HERE, path)) if os.path.exists(c)), None)
    if full is None:
        print("CHECKER-ERROR replay file not found: %s" % path)
        return 3
    r = json.load(open(full))
    pid, name = r["property"], r["obligation"]
    print("REPLAY property=%s obligation=%s" % (pid, name))
    for d in (r.get("solver_output") or [])[:3]:
        print("  recorded verifier output: %s" % d)
    cex = r.get("counterexample")
    if cex and cex.get("rerun"):
        print("  counterexample (%s); re-running on the real code: %s" % (cex.get("kind", ""), cex["rerun"]))
        pr = subprocess.run(cex["rerun"], shell=True, capture_output=True, text=True, timeout=1800)
        for l in (pr.stdout + pr.stderr).strip().splitlines()[-12:]:
            print("    | " + l[:300])
    else:
        print("  no failing input was found for this obligation (no-failing-input-found)")
    buf = io.StringIO()
    sys.argv = [sys.argv[0], pid]
    with contextlib.redirect_stdout(buf):
        rc = main()
    lines = buf.getvalue().splitlines()
    base = os.path.basename(full)
    again = [l for l in lines if l.startswith("VIOLATION") and base in l]
    if again:
        print("  the obligation still fails on the current tree:")
        for l in again:
            print(l)
        return 1
    if rc in (2, 3):
        print("  the check did not decide on the current tree (exit %d):" % rc)
        for l in lines[-5:]:
            print("    " + l)
        return rc
    print("  the obligation is discharged on the current tree")
    return 0


def main():
    if "--replay" in sys.argv:
        i = sys.argv.index("--replay")
        path = sys.argv[i + 1] if i + 1 < len(sys.argv) else ""
        sys.argv = [sys.argv[0]]
        return do_replay(path)
    args = [a for a in sys.argv[1:] if not a.startswith("--")]
    if not args:
        print(__doc__)
        return 3
    pid = args[0]
    tier = os.environ.get("VERIF_TIER", "quick")
    if "--tier" in sys.argv:
        tier = sys.argv[sys.argv.index("--tier") + 1]
    seed = int(os.environ.get("VERIF_SEED", "0") or 0)
    t0 = time.time()
    R.load_contracts()
    import properties_map as PM
    if pid not in PM.PROPS:
        print("CHECKER-ERROR: property %s is not claimed (see MANIFEST.not_applicable)" % pid)
        return 3
    spec = PM.PROPS[pid]
    timeout_ms = 40000 if tier == "quick" else 150000
    also = PM.TAG_ALSO.get(pid, [])
    quals = sorted(set([q for q, c in REGISTRY.items() if hasattr(c, "tags") and (pid in c.tags or any(a in c.tags for a in also))]
                       + PM.functions_all(pid)))
    fall = PM.functions_all(pid)
    results = R.run_functions(quals, timeout_ms=timeout_ms, split=PM.SPLIT)
    from pvc.front import Source
    src = Source()
    obls = []
    undecided, errors = [], []
    fuc = {}
    exits = {}
    for r in results:
        if r["error"]:
            errors.append("%s: %s" % (r["qual"], r["error"].strip().splitlines()[-1]))
            sys.stderr.write(r["error"])
        if r["unsupported"]:
            undecided.append("%s: %s" % (r["qual"], r["unsupported"]))
        fuc[r["qual"]] = {"sha256_16": src.sha(r["qual"]), "paths": r["paths"], "exits": r["exits"]}
        for o in r["results"]:
            # functions_all: every obligation of the function counts for this property, except clauses that are
            # only about the *content* of usage records (C15/C16), which no other property speaks about
            if pid in o["tags"] or (r["qual"] in fall and not (o["tags"] and set(o["tags"]) <= PM.USAGE_CONTENT_ONLY)
                                    and (r["qual"], o.get("kind")) not in PM.NARROW_ATTRIBUTION) \
                    or any(a in o["tags"] for a in PM.TAG_ALSO.get(pid, [])):
                o["function"] = r["qual"]
                obls.append(o)
    # structural checks on the ASTs (census) and pure lemmas over the contracts
    extra = []
    for fn in spec.get("census", []):
        for name, ok, detail in fn(src):
            extra.append({"name": name, "norm": name, "status": "discharged" if ok else "failed", "backend": "ast-census",
                          "secs": 0.0, "tags": [pid], "kind": "census", "detail": detail, "function": "package"})
    from pvc.values import Unsupported
    for fn in spec.get("lemmas", []):
        try:
            lem = fn(timeout_ms)
        except Unsupported as e_:
            # (e.g. database.py uses a construct the file-system interpreter does not model)
            undecided.append("%s: %s" % (getattr(fn, "__name__", "lemma"), e_))
            lem = []
        for o in lem:
            o.setdefault("tags", [pid])
            o.setdefault("kind", "lemma")
            o.setdefault("function", "contracts")
            o.setdefault("norm", o["name"])
            extra.append(o)
    selftest = {}
    if tier == "thorough":
        selftest = PM.thorough_extras(pid)
        for name, ok, detail in selftest.get("assumption_checks", []):
            extra.append({"name": name, "norm": name, "status": "discharged" if ok else "failed", "backend": "cpython-enumeration",
                          "secs": 0.0, "tags": [pid], "kind": "lemma", "detail": detail, "function": "assumptions"})
    obls += extra
    # canaries: deliberately false clauses must NOT verify
    canaries = {}
    for fn in spec.get("canaries", []):
        for name, verified in fn():
            canaries[name] = "VERIFIED (vacuous pipeline!)" if verified else "rejected"
    vacuous = [k for k, v in canaries.items() if v != "rejected"]

    baseline = set()
    bp = os.path.join(HERE, "baseline_obligations.json")
    if os.path.exists(bp):
        baseline = set(json.load(open(bp)).get(pid, []))
    findings = PM.load_findings()
    failed = [o for o in obls if o["status"] != "discharged" and not o["status"].startswith("known:")]
    conditioned = [o for o in obls if o["status"].startswith("known:")]
    discharged = [o for o in obls if o["status"] == "discharged"]
    # group failures by normalised name
    groups = {}
    for o in failed:
        groups.setdefault(o["norm"], []).append(o)
    violations, known, newfail = [], [], []
    os.makedirs(os.path.join(OUT, "replays", pid), exist_ok=True)
    for name, os_ in sorted(groups.items()):
        f = PM.match_finding(findings, pid, name)
        if f is not None:
            known.append((f, name, os_))
            continue
        universal = all(o.get("kind") in ("frame", "no_exception", "emit", "commit", "requires", "wiring", "callback")
                        for o in os_)
        if baseline and name not in baseline and not universal:
            # (instances of the blanket rules - nothing outside `modifies` changes, no exception escapes, callee
            # preconditions hold, frames only from a clean state, every commit point recoverable - held at every
            # site of the unchanged tree: a failing new instance is a violation, not an unknown)
            newfail.append((name, os_))
            continue
        violations.append((name, os_))
    out_lines = []
    printed_known = set()
    # obligations that fail outright but are discharged under the negated witness of an open finding
    byid = {f["id"]: f for f in findings}
    for o in conditioned:
        f = byid.get(o["status"][6:])
        if f is None:
            violations.append((o["norm"], [o]))
            continue
        if f["id"] in printed_known:
            continue
        if PM.finding_present(f):
            printed_known.add(f["id"])
            out_lines.append("KNOWN-FINDING: property=%s %s %s" % (pid, f["id"], f["what"]))
        else:
            violations.append((o["norm"], [o]))
    # findings excluded by a stated precondition of an event handler (assumed_as)
    used_funcs = set(fuc)
    for f in findings:
        if f.get("status") == "open" and f.get("assumed_as") and pid in f["properties"] \
                and f["assumed_as"].split("#")[0] in used_funcs and f["id"] not in printed_known:
            if PM.finding_present(f):
                printed_known.add(f["id"])
                out_lines.append("KNOWN-FINDING: property=%s %s %s" % (pid, f["id"], f["what"]))
    for f, name, os_ in known:
        if f["id"] in printed_known:
            continue
        present = PM.finding_present(f)
        if present:
            printed_known.add(f["id"])
            out_lines.append("KNOWN-FINDING: property=%s %s %s" % (pid, f["id"], f["what"]))
        else:
            # the obligation fails but the recorded witness no longer reproduces: a different violation
            violations.append((name, os_))
    rc = 0
    for name, os_ in violations:
        path = os.path.join("replays", pid, re.sub(r"[^A-Za-z0-9_.#-]", "_", name) + ".json")
        replay = {"property": pid, "obligation": name, "instances": [
            {k: o.get(k) for k in ("name", "path", "status", "backend", "secs", "detail", "decisions", "function")}
            for o in os_], "solver_output": [o.get("detail") for o in os_],
            "smt2": next((o.get("smt") for o in os_ if o.get("smt")), None),
            "function_sha": {o["function"]: fuc.get(o["function"], {}).get("sha256_16") for o in os_},
            "counterexample": None,
            "note": "the solver returned no model (unknown/timeout on the negated obligation); "
                    "the obligation is discharged on the unchanged tree (baseline_obligations.json)",
            "rerun": "cd /verif && python3-vt check.py %s --tier %s" % (pid, tier)}
        cex = PM.try_counterexample(pid, name, os_)
        suffix = " no-failing-input-found"
        if cex:
            replay["counterexample"] = cex
            suffix = ""
        json.dump(replay, open(os.path.join(OUT, path), "w"), indent=1, default=str)
        out_lines.append("VIOLATION property=%s replay=%s%s" % (pid, path, suffix))
        rc = 1
    if rc == 0 and (undecided or newfail):
        for u in undecided:
            out_lines.append("UNDECIDED %s" % u)
        for name, os_ in newfail:
            out_lines.append("UNDECIDED new obligation not discharged: %s (%s)" % (name, os_[0].get("detail")))
        rc = 2
    if errors:
        for e in errors:
            out_lines.append("CHECKER-ERROR %s" % e)
        rc = 3 if rc == 0 else rc
    if not obls and rc == 0:
        out_lines.append("CHECKER-ERROR zero obligations generated for %s" % pid)
        rc = 3
    if vacuous and rc == 0:
        out_lines.append("CHECKER-ERROR canary verified: %s" % ", ".join(vacuous))
        rc = 3
    dc = selftest.get("diffcheck") or {}
    if rc == 0 and (dc.get("false") or dc.get("error") or dc.get("canary_rejected") is False):
        out_lines.append("CHECKER-ERROR differential cross-check: a contract clause is false on a real run (%s)" % (
            dc.get("error") or [x.get("clause") for x in dc.get("false", [])][:3] or "canary accepted"))
        rc = 3
    demos_bad = [n for n, r in (selftest.get("native_demos") or {}).items() if r["exit"] != 0]
    if demos_bad and rc == 0:
        out_lines.append("CHECKER-ERROR an independent native demonstration of this property fails on this tree although every "
                         "obligation is discharged: %s" % ", ".join(demos_bad))
        rc = 3
    survived = [m for m, st in selftest.get("mutants", {}).items() if st not in ("KILLED", "KILLED-other", "OK-equivalent")]
    if survived and rc == 0:
        out_lines.append("CHECKER-ERROR seeded mutants not killed (contract too weak or engine unsound): %s" % ", ".join(survived))
        rc = 3
    wall = time.time() - t0
    backends = {}
    for o in discharged:
        backends[o["backend"]] = backends.get(o["backend"], 0) + 1
    n_known = sum(len(x[2]) for x in known if x[0]["id"] in printed_known) + \
        sum(1 for o in conditioned if o["status"][6:] in printed_known)
    ev = {
        "property_id": pid, "tier": tier, "seed": seed, "level": spec.get("level", "proof"),
        "coverage": {
            "obligations": len(obls), "discharged": len(discharged) + len([o for o in conditioned if o["status"][6:] in printed_known]),
            "discharged_outright": len(discharged),
            "not_discharged_known_findings": n_known,
            "checker_cmd": "cd /verif && python3-vt check.py %s --tier %s" % (pid, tier),
            "trusted_base": spec.get("trusted", []) + [
                "pvc VC generator (/verif/pvc): symbolic execution of the real AST, relational SQL semantics",
                "z3 %s" % __import__("z3").get_version_string(), "/usr/bin/cvc5 (second opinion on z3 unknowns)"],
            "backends": backends,
            "functions_under_contract": fuc,
            "obligation_names": sorted(set(o["norm"] for o in obls)),
            "samples": [{"obligation": o["name"], "path_decisions": o.get("decisions"), "status": o["status"],
                         "backend": o["backend"], "smt2_head": (o.get("smt") or "")[:1500]}
                        for o in (failed[:2] + [x for x in discharged if x.get("smt")][:3] + discharged[:2])],
            "solver_time_s": round(sum(o["secs"] for o in obls), 2),
            "canaries": canaries,
            "selftest_mutants": selftest.get("mutants", {}),
            "findings_native": selftest.get("findings_native", {}),
            "native_demos": selftest.get("native_demos"),
            "diffcheck": {k: v for k, v in (selftest.get("diffcheck") or {}).items() if k != "false"} or None,
            "known_findings": sorted(printed_known),
            "conditioned_on": sorted(set(spec.get("conditioned_on", [])) | printed_known),
            "discharged_under_negated_witness": sorted(set(o["norm"] + " [" + o["status"][6:] + "]" for o in conditioned)),
            "paper_steps": spec.get("paper_steps", []),
            "bounded": spec.get("bounded", []),
            "undecided": undecided + [n for n, _ in newfail],
            "not_covered": spec.get("not_covered", []),
            "explanation": spec.get("explanation", ""),
        },
        "assumptions": spec.get("assumptions", []),
        "wall_s": round(wall, 2),
        "violations": len(violations),
    }
    os.makedirs(os.path.join(OUT, "evidence"), exist_ok=True)
    json.dump(ev, open(os.path.join(OUT, "evidence", pid + ".json"), "w"), indent=1, default=str)
    for line in out_lines:
        print(line)
    print("%s: %d obligations, %d discharged, %d known-finding, %d violation group(s), %.1fs, exit %d"
          % (pid, len(obls), len(discharged), n_known, len(violations), wall, rc))
    return rc


if __name__ == "__main__":
    try:
        rc_ = main()
    except SystemExit:
        raise
    except BaseException as e_:      # a crash of the checker is never a verdict about /repo (exit 3, no VIOLATION line)
        import traceback
        traceback.print_exc()
        print("CHECKER-ERROR %s: %s" % (type(e_).__name__, str(e_)[:300]))
        rc_ = 3
    sys.exit(rc_)
