"""development driver: python3-vt dev.py <qualname> [-v]"""
import os, sys, time, importlib
sys.path.insert(0, os.path.dirname(os.path.abspath(__file__)))
from pvc.front import Source
from pvc.symex import Exec
from pvc import solve
from pvc.contract import REGISTRY
for m in ["mailbox", "appnamespace", "server", "websocket", "tap"]:
    try:
        importlib.import_module("contracts." + m)
    except ModuleNotFoundError as e:
        if "contracts." not in str(e): raise
src = Source()
quals = [q for q in sys.argv[1:] if not q.startswith("-")]
verbose = "-v" in sys.argv
if not quals: quals = [q for q in REGISTRY if not q.startswith("callback.")]
tot = bad = 0
for q in [x for x in quals if x.startswith("@")]:
    from contracts import dbfiles
    for r in getattr(dbfiles, q[1:])():
        tot += 1
        if r["status"] != "discharged":
            bad += 1
            print("    [failed] %s (%s)" % (r["name"], r["detail"][:200]))
quals = [x for x in quals if not x.startswith("@")]
if "--fast" in sys.argv and quals:
    # mutant self-test mode: everything in parallel, short budget, no cvc5 (a failing obligation need not be explored exhaustively)
    import os
    os.environ["PVC_NO_CVC5"] = "1"
    import properties_map as PM
    from pvc import run as R
    for r in R.run_functions(quals, timeout_ms=8000, split=PM.SPLIT, want_smt=False):
        if r["error"]:
            sys.stderr.write(r["error"])
        if r["unsupported"]:
            print("    [unknown] %s#unsupported (%s)" % (r["qual"], r["unsupported"][:150]))
            bad += 1
        for o in r["results"]:
            tot += 1
            if o["status"] != "discharged" and not o["status"].startswith("known:"):
                bad += 1
                print("    [%s] %s (%s %.2fs)" % (o["status"], o["name"], o["backend"], o["secs"]))
    quals = []
for q in quals:
    ex = Exec(src, q)
    t = time.time()
    paths = ex.explore()
    print("== %s: %d paths, symex %.2fs" % (q, len(paths), time.time() - t))
    for k, p in enumerate(paths):
        if verbose: print("  path %d exit=%s decisions=%s" % (k, p.exit and p.exit[0], p.labels))
        for o in p.obls:
            v = solve.discharge(p, o, 10000)
            tot += 1
            if v.status != "discharged" or verbose:
                print("    [%s] %s (%s %.2fs) %s" % (v.status, o.name, v.backend, v.secs, v.detail))
            if v.status != "discharged": bad += 1
print("obligations: %d, not discharged: %d" % (tot, bad))
