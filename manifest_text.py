"""Per-property wording for MANIFEST.json (level_claimed.text / level_note)."""
NOTES = ("Every check re-reads /repo's working-tree source on each run, generates verification conditions from the real "
         "ASTs against the sidecar contracts in /verif/contracts and discharges them with z3 (cvc5 on unknowns). "
         "Genuine defects found are in known_findings.json (fixed ones as 'fix:' commits in /repo). See DESIGN.md.")
COMMON_NOTE = ("Trusted: the pvc VC generator itself (cross-checked by the seeded-mutant self-test, tools/run_mutants.py), "
               "z3/cvc5, and the assumption catalogue A1-A16 of DESIGN.md section 3 (Python/sqlite3 semantics as encoded; "
               "SQLite atomic commit; Autobahn callback order). Induction over events is a paper step.")
TEXT = {
 "C04": {"level": "Proof, unbounded: _find_available_nameplate_id / allocate_nameplate verified against the C04 oracle (free w.r.t. the unfiltered set of live nameplates of the app, positive decimal via dec(), shortest available, claimed before return) for every table content, every random draw and symbolic allow_list; census shows the gated accessor is used by `list` only.",
         "note": COMMON_NOTE + " A4: '%d' % i modelled by an injective dec with digit-count axioms; A14 fresh mailbox ids."},
 "C15": {"level": "Proof, unbounded in the number of side rows and moods: both summary functions equal the spec functions written from the property text (first/second arrival, precedence), every retirement site (release, close, prune) writes exactly one record (postconditions over the usage tables), census of DELETE sites.",
         "note": COMMON_NOTE + " sorted() assumed to return an ordered permutation (A3), its four derived lemmas are proved. The status-row count is a paper step (C15.count)."},
 "C16": {"level": "Proof over real-valued times and any blur interval >= 1: every INSERT of started/connect_time stores a value v with v = b*k <= t < v+b (k integer) for the true time t, on every path that writes a record; census shows these are the only writers and their only callers.",
         "note": COMMON_NOTE + " A2: IEEE rounding not modelled (reals)."},
}
NOT_APPLICABLE = {}
