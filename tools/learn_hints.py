"""Record, for every obligation that the first strategy does not discharge, which strategy does
(solver_hints.json). The hints only reorder the portfolio of pvc/solve.py; verdicts are unaffected."""
import collections, json, os, re, sys
os.environ["PVC_LEARN"] = "1"
sys.path.insert(0, os.path.dirname(os.path.dirname(os.path.abspath(__file__))))
from pvc import run as R
R.load_contracts()
import properties_map as PM
from pvc.contract import REGISTRY
quals = [q for q, c in REGISTRY.items() if hasattr(c, "tags")]
res = R.run_functions(quals, 40000, split=PM.SPLIT, want_smt=False)
hints = collections.defaultdict(collections.Counter)
for r in res:
    for o in r["results"]:
        if o["status"] != "discharged":
            continue
        keys = re.sub(r"\(split\)$", "", o["backend"]).split("+")
        for rank, k in enumerate(keys):
            hints[o["norm"]][k] += 10 if (len(keys) > 1 and rank == 0) else 1     # a measured-fastest strategy outweighs defaults
out = {n: [k for k, _ in c.most_common()] for n, c in hints.items() if set(c) != {"cases"} }
json.dump(out, open("/verif/solver_hints.json", "w"), indent=0, sort_keys=True)
print(len(out), "obligation names with a hint;", collections.Counter(k for v in out.values() for k in v))
