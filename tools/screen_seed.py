"""Screen sub-agent changes against the real checks on a scratch worktree (PVC_REPO), leaving /repo alone:
  tools/screen_seed.py <dir-with-patch.diff+meta.json> [more dirs]      (checks of the property named in meta.json;
  add --all to run all twenty checks).  Evidence and replays of these runs go to a scratch directory."""
import json, os, subprocess, sys, shutil
args = [a for a in sys.argv[1:] if not a.startswith("--")]
ALL = "--all" in sys.argv
PIDS = ["C%02d" % i for i in range(1, 21)]
for d in args:
    d = os.path.abspath(d)
    name = os.path.basename(d)
    meta = json.load(open(d + "/meta.json"))
    wt = "/tmp/screen_" + name
    out = "/tmp/screen_out_" + name
    subprocess.run("git -C /repo worktree remove --force %s" % wt, shell=True, capture_output=True)
    subprocess.check_call("git -C /repo worktree add --detach %s HEAD >/dev/null 2>&1" % wt, shell=True)
    try:
        subprocess.check_call("git -C %s apply %s/patch.diff" % (wt, d), shell=True)
        os.makedirs(out, exist_ok=True)
        pids = PIDS if ALL else [meta["property"]]
        verdicts = {}
        for pid in pids:
            r = subprocess.run(["python3-vt", "/verif/check.py", pid, "--tier", "quick"], capture_output=True, text=True,
                               env=dict(os.environ, PVC_REPO=wt, PVC_OUT=out), cwd="/verif")
            v = [l for l in r.stdout.splitlines() if l.startswith(("VIOLATION", "UNDECIDED", "CHECKER-ERROR", "KNOWN-FINDING"))]
            verdicts[pid] = (r.returncode, v)
        caught = [p for p, (rc, v) in verdicts.items() if rc == 1]
        print("%s (breaks %s): %s" % (name, meta["property"], "CAUGHT by " + ",".join(caught) if caught else
                                      "NOT CAUGHT " + str({p: rc for p, (rc, v) in verdicts.items()})))
        for p, (rc, v) in verdicts.items():
            if rc != 0:
                for l in v[:6]:
                    if not l.startswith("KNOWN"):
                        print("    [%s exit %d] %s" % (p, rc, l[:260]))
        sys.stdout.flush()
    finally:
        subprocess.run("git -C /repo worktree remove --force %s" % wt, shell=True, capture_output=True)
        shutil.rmtree(out, ignore_errors=True)
