"""Run all obligations once against each kept seeded change (applied to /repo, undone afterwards) and report
which properties' checks would raise a VIOLATION (a failing obligation that is in that property's baseline)."""
import json, os, subprocess, sys
sys.path.insert(0, "/verif")
os.chdir("/verif")
names = sys.argv[1:] or sorted(os.listdir("/verif/seeded"))
base = json.load(open("/verif/baseline_obligations.json"))
code = r'''
import sys, json
sys.path.insert(0, "/verif")
from pvc import run as R
R.load_contracts()
import properties_map as PM
from pvc.contract import REGISTRY
quals = [q for q, c in REGISTRY.items() if hasattr(c, "tags")]
res = R.run_functions(quals, 40000, split=PM.SPLIT, want_smt=False)
out = {"fail": [], "undecided": []}
for r in res:
    if r["unsupported"] or r["error"]:
        out["undecided"].append([r["qual"], (r["unsupported"] or r["error"]).strip().splitlines()[-1]])
    for o in r["results"]:
        if o["status"] != "discharged" and not o["status"].startswith("known:"):
            out["fail"].append([o["norm"], o["tags"], r["qual"], o["kind"]])
from contracts import census
from pvc.front import Source
src = Source()
for pid, spec in PM.PROPS.items():
    for fn in spec.get("census", []):
        for name, ok, detail in fn(src):
            if not ok:
                out["fail"].append([name, [pid], "census", "census"])
    for fn in spec.get("lemmas", []):
        try:
            for o in fn(20000):
                if o["status"] != "discharged" and not o["status"].startswith("known:"):
                    out["fail"].append([o["name"], [pid], "census", "lemma"])
        except Exception as e:
            out["undecided"].append(["lemma of " + pid, str(e)[:200]])
print("JSON" + json.dumps(out))
'''
for n in names:
    d = "/verif/seeded/" + n
    meta = json.load(open(d + "/meta.json"))
    st = subprocess.run("git -C /repo status --porcelain -- src", shell=True, capture_output=True, text=True).stdout
    assert not st.strip(), "repo dirty: " + st
    subprocess.check_call("git -C /repo apply %s/patch.diff" % d, shell=True)
    try:
        r = subprocess.run(["python3-vt", "-c", code], capture_output=True, text=True)
        line = [l for l in r.stdout.splitlines() if l.startswith("JSON")]
        if not line:
            print(n, "RUN FAILED", r.stderr[-400:])
            continue
        out = json.loads(line[0][4:])
        props = {}
        for name, tags, q, kind in out["fail"]:
            for pid, names_ in base.items():
                universal = kind in ("frame", "no_exception", "emit", "commit", "requires", "wiring", "callback")
                if (name in names_ or universal) and (pid in tags or (q == "census" and pid in tags)):
                    props.setdefault(pid, set()).add(name)
        verdict = "CAUGHT by " + ",".join(sorted(props)) if props else ("UNDECIDED only" if out["undecided"] else "MISSED")
        print("%s (breaks %s): %s" % (n, meta.get("property"), verdict))
        for pid in sorted(props):
            print("    %s: %s" % (pid, ", ".join(sorted(props[pid]))[:300]))
        for q, why in out["undecided"]:
            print("    UNDECIDED %s: %s" % (q, why[:200]))
    finally:
        subprocess.check_call("git -C /repo checkout -- src", shell=True)
