"""Run the registered checks against each kept seeded change: apply to /repo, run the quick checks
of the given properties, undo. usage: run_seeded.py [name ...]"""
import json, os, subprocess, sys
names = sys.argv[1:] or sorted(os.listdir("/verif/seeded"))
man = json.load(open("/verif/MANIFEST.json"))
claimed = [c["property_id"] for c in man["checks"]]
for n in names:
    d = "/verif/seeded/" + n
    meta = json.load(open(d + "/meta.json"))
    st = subprocess.run("git -C /repo status --porcelain -- src", shell=True, capture_output=True, text=True).stdout
    assert not st.strip(), "repo dirty: " + st
    subprocess.check_call("git -C /repo apply %s/patch.diff" % d, shell=True)
    try:
        hits = {}
        for pid in claimed:
            r = subprocess.run("cd /verif && python3-vt check.py %s --tier quick" % pid, shell=True, capture_output=True, text=True)
            v = [l for l in r.stdout.splitlines() if l.startswith("VIOLATION")]
            if r.returncode != 0:
                hits[pid] = (r.returncode, v[:3] or [l for l in r.stdout.splitlines() if "UNDECIDED" in l or "CHECKER" in l][:2])
        print("%s (breaks %s): %s" % (n, meta.get("property"), "MISSED" if not any(rc == 1 for rc, _ in hits.values()) else "CAUGHT by " + ",".join(p for p, (rc, _) in hits.items() if rc == 1)))
        for pid, (rc, v) in hits.items():
            for l in v: print("    [%s exit %d] %s" % (pid, rc, l))
    finally:
        subprocess.check_call("git -C /repo checkout -- src", shell=True)
