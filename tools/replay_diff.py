"""Replay a counterexample found by pvc/cex.py: tools/replay_diff.py <Class.method> <seed> [<clause prefix>]
re-runs the real method on the same seeded reachable states and prints the runs on which a contract clause is false."""
import json, os, sys
sys.path.insert(0, os.path.dirname(os.path.dirname(os.path.abspath(__file__))))
from pvc import run as R
R.load_contracts()
from pvc import diff
target, seed = sys.argv[1], int(sys.argv[2])
clause = sys.argv[3] if len(sys.argv) > 3 else ""
d = diff.find_failing(target, clause if not clause.startswith("undeclared") else "", seeds=(seed,), cases=25, budget_s=600)
if d:
    print("FAILING RUN of %s: clause %s is false" % (target, d["clause"]))
    print(json.dumps({k: d[k] for k in ("args", "app", "mailbox_id", "usage", "blur", "raised", "result", "pre", "post")}, indent=1, default=str))
    sys.exit(1)
print("no failing run")
