#!/bin/sh
# run every claimed check (quick tier) on the current tree, then regenerate MANIFEST.json and the baseline
cd /verif
for p in $(python3 -c "import json; print(' '.join(c['property_id'] for c in json.load(open('MANIFEST.json'))['checks']))") "$@"; do
  python3-vt check.py $p 2>&1 | grep -v "^WARNING" | grep -v "^KNOWN" | tail -2
done
python3-vt tools/gen_manifest.py 2>&1 | grep -v "^WARNING"
