"""Seeded-mutant self-test: apply each catalogue entry to a scratch copy of
/repo/src (outside /repo and /verif, removed afterwards), re-verify the named
functions and require a failing obligation."""
import os, re, shutil, subprocess, sys, tempfile
sys.path.insert(0, os.path.dirname(os.path.dirname(os.path.abspath(__file__))))
from mutants.catalog import MUTANTS

def run(ids=None, jobs=2):
    from concurrent.futures import ThreadPoolExecutor
    todo = [m for m in MUTANTS if not ids or m["id"] in ids]
    def one(m):
        d = tempfile.mkdtemp(prefix="pvc-mut-", dir="/var/tmp")
        try:
            shutil.copytree("/repo/src", os.path.join(d, "src"), ignore=shutil.ignore_patterns("__pycache__", "*.egg-info"))
            p = os.path.join(d, m["file"])
            s = open(p).read()
            if m["old"] not in s:
                return m["id"], "STALE", "pattern not found"
            open(p, "w").write(s.replace(m["old"], m["new"], 1))
            env = dict(os.environ, PVC_REPO=d)
            out = subprocess.run(["python3-vt", os.path.join(os.path.dirname(os.path.dirname(os.path.abspath(__file__))), "dev.py"), "--fast"] + m["funcs"], capture_output=True, text=True, env=env, timeout=1800)
            allf = re.findall(r"\[(?:unknown|failed|refuted)\] (\S+)", out.stdout)
            failed = [f for f in allf if not f.endswith("#unsupported")]
            undecided = [f for f in allf if f.endswith("#unsupported")]
            if "Traceback" in out.stderr:
                return m["id"], "ERROR", out.stderr.strip().splitlines()[-1]
            if m.get("equiv"):
                if undecided and not failed:
                    return m["id"], "UNDECIDED", ",".join(sorted(set(undecided)))
                return m["id"], ("OK-equivalent" if not failed else "FALSE-ALARM"), ",".join(sorted(set(failed)))
            hit = [f for f in failed if m["expect"] in f]
            return m["id"], ("KILLED" if hit else ("KILLED-other" if failed else ("UNDECIDED" if undecided else "SURVIVED"))), ",".join(sorted(set(failed or undecided)))[:300]
        finally:
            shutil.rmtree(d, ignore_errors=True)
    with ThreadPoolExecutor(jobs) as ex:
        res = list(ex.map(one, todo))
    return res

if __name__ == "__main__":
    ids = [a for a in sys.argv[1:]]
    bad = 0
    for mid, status, detail in run(ids):
        print("%-5s %-14s %s" % (mid, status, detail))
        if status in ("SURVIVED", "ERROR", "STALE", "FALSE-ALARM", "UNDECIDED"): bad += 1
    sys.exit(1 if bad else 0)
