"""Regenerate MANIFEST.json and baseline_obligations.json from properties_map + evidence."""
import json, os, sys
sys.path.insert(0, os.path.dirname(os.path.dirname(os.path.abspath(__file__))))
os.chdir(os.path.dirname(os.path.dirname(os.path.abspath(__file__))))
from pvc import run as R
R.load_contracts()
import properties_map as PM
import manifest_text as MT

props = [json.loads(l) for l in open("properties.jsonl")]
checks = []
for p in props:
    pid = p["id"]
    if pid not in PM.PROPS:
        continue
    t = MT.TEXT[pid]
    checks.append({
        "property_id": pid,
        "quick_cmd": "python3-vt check.py %s --tier quick" % pid,
        "thorough_cmd": "python3-vt check.py %s --tier thorough" % pid,
        "evidence_file": "/verif/evidence/%s.json" % pid,
        "replay_cmd_template": "python3-vt check.py --replay {path}",
        "engine": "pvc",
        "level_claimed": {"category": PM.PROPS[pid].get("level", "proof"), "text": t["level"], "design_ref": "DESIGN.md section 9, " + pid},
        "level_note": t["note"],
        "technique": t.get("technique", "contract-based deductive verification: VCs generated from the real Python AST + SQL relational semantics against sidecar contracts, discharged by z3 (cvc5 on unknowns), unbounded"),
    })
na = [{"property_id": p["id"], "reason": MT.NOT_APPLICABLE.get(p["id"], "check not built yet (build in progress; DESIGN.md section 13)")}
      for p in props if p["id"] not in PM.PROPS]
m = {"version": 1,
     "setup_cmd": "python3-vt -m compileall -q pvc contracts check.py properties_map.py >/dev/null 2>&1; python3-vt -c 'import z3'",
     "hooks": {"guard": "WORMHOLE_MAILBOX_VERIF", "enable": "no hooks: the verifier reads /repo's working-tree source text; nothing in /repo is instrumented",
               "baseline_off_cmd": "cd /repo && /venv/bin/python -m pytest -ra -q -p no:cacheprovider --timeout=900 --continue-on-collection-errors",
               "source_commits": [], "add_only": True},
     "engines": [{"name": "pvc", "path": "/verif/pvc", "serves_properties": [c["property_id"] for c in checks],
                  "kind_free_text": "self-written VC generator: symbolic execution of the real Python AST + relational SQL semantics, contracts in sidecar modules (/verif/contracts), obligations discharged by z3 (cvc5 second)"}],
     "checks": checks,
     "notes": MT.NOTES,
     "not_applicable": na}
json.dump(m, open("MANIFEST.json", "w"), indent=1)
# baseline: names of the obligations discharged on the unchanged tree, from the evidence of the last run
base = {}
for c in checks:
    ev = "evidence/%s.json" % c["property_id"]
    if os.path.exists(ev):
        e = json.load(open(ev))
        if e["coverage"]["obligations"] == e["coverage"]["discharged"]:
            base[c["property_id"]] = e["coverage"]["obligation_names"]
json.dump(base, open("baseline_obligations.json", "w"), indent=0)
print("MANIFEST: %d checks, %d not_applicable; baseline for %s" % (len(checks), len(na), sorted(base)))
