"""Confirm a sub-agent's seeded change in a fresh scratch worktree of /repo HEAD and keep it
under /verif/seeded/<name>/ (patch.diff, demo.py, meta.json)."""
import json, os, shutil, subprocess, sys
src, name = sys.argv[1], sys.argv[2]
dst = "/verif/seeded/" + name
wt = "/tmp/confirm_" + name
def sh(cmd, cwd=None):
    r = subprocess.run(cmd, shell=True, cwd=cwd, capture_output=True, text=True)
    return r.returncode, (r.stdout + r.stderr)
sh("git -C /repo worktree remove --force %s" % wt)
rc, out = sh("git -C /repo worktree add --detach %s HEAD" % wt)
assert rc == 0, out
try:
    env = "PYTHONPATH=%s/src" % wt
    shutil.copy(os.path.join(src, "demo.py"), wt)
    rc0, out0 = sh("%s /venv/bin/python demo.py" % env, wt)
    rca, outa = sh("git apply %s" % os.path.join(src, "patch.diff"), wt)
    rct, outt = sh("%s /venv/bin/python -m pytest -q -p no:cacheprovider --timeout=900 2>&1 | tail -1" % env, wt)
    rc1, out1 = sh("%s /venv/bin/python demo.py" % env, wt)
    ok = rc0 == 0 and rca == 0 and "121 passed" in outt and rc1 == 1
    print(name, "demo-unchanged exit", rc0, "| apply", rca, "| tests:", outt.strip()[-60:], "| demo-changed exit", rc1, "=>", "CONFIRMED" if ok else "REJECTED")
    if not ok:
        print(out0[-300:], outa[-300:], out1[-300:])
    if ok:
        os.makedirs(dst, exist_ok=True)
        for f in ("patch.diff", "demo.py"):
            shutil.copy(os.path.join(src, f), dst)
        meta = json.load(open(os.path.join(src, "meta.json")))
        meta["confirmed"] = {"on_repo_commit": subprocess.check_output("git -C /repo log --format=%h -1", shell=True, text=True).strip(),
                             "demo_unchanged_exit": rc0, "tests_with_change": outt.strip(), "demo_with_change_exit": rc1,
                             "demo_with_change_output": out1.strip()[:600],
                             "how": "fresh worktree of /repo HEAD under /tmp: demo, git apply patch.diff, full test suite, demo"}
        json.dump(meta, open(os.path.join(dst, "meta.json"), "w"), indent=1)
finally:
    sh("git -C /repo worktree remove --force %s" % wt)
