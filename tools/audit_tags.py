"""every clause tag of a function must be among the function's tags (else a property check would skip the function)"""
import os, sys
sys.path.insert(0, os.path.dirname(os.path.dirname(os.path.abspath(__file__))))
from pvc import run as R
R.load_contracts()
from pvc.contract import REGISTRY
quals = [q for q, c in REGISTRY.items() if hasattr(c, "tags")]
res = R.run_functions(quals, timeout_ms=40000, split={"server_websocket.WebSocketServer.onMessage": 8, "server_websocket.WebSocketServer.handle_close": 4})
missing = {}
for r in res:
    if r["error"] or r["unsupported"]:
        print("!!", r["qual"], r["error"] or r["unsupported"])
    have = set(REGISTRY[r["qual"]].tags)
    for o in r["results"]:
        for t in o["tags"]:
            if t not in have:
                missing.setdefault(r["qual"], set()).add(t)
for q, ts in sorted(missing.items()):
    print(q, sorted(ts))
if "--write" in sys.argv:
    import json
    cur = {}
    try:
        cur = json.load(open("/verif/contracts/extra_tags.json"))
    except Exception:
        pass
    for q, ts in missing.items():
        cur[q] = sorted(set(cur.get(q, [])) | ts)
    json.dump(cur, open("/verif/contracts/extra_tags.json", "w"), indent=1, sort_keys=True)
bad = [(o["name"], o["status"]) for r in res for o in r["results"] if o["status"] != "discharged"]
print(len([o for r in res for o in r["results"]]), "obligations;", len(bad), "not discharged (3 s budget):", sorted(set(bad))[:20])
