"""Loop rules (DESIGN 5.2).

  * constant `range` with at most UNROLL_MAX iterations: complete unrolling (exact);
  * a loop with a LoopSpec in the function's contract: invariant rule over an
    indexed enumeration of the iterable (init / preserve / use-after);
  * otherwise the loop must be a *pure accumulation loop* (body only adds to local
    set()/[] accumulators): it is summarised exactly as a comprehension.
"""
import ast
import z3
from .zs import *  # noqa
from .values import *  # noqa
from .symex import PyReturn, PyRaise, PyBreak, PyContinue, LoopEnd, vsubst
from .contract import Ctx, make_symbolic

UNROLL_MAX = 4


class SubDecider:
    def __init__(self, prefix):
        self.decisions = list(prefix)
        self.width = {}
        self.di = 0

    def decide(self, n, label=""):
        if self.di < len(self.decisions):
            c = self.decisions[self.di]
        else:
            c = 0
            self.decisions.append(0)
        self.width[self.di] = n
        self.di += 1
        return c


class LoopView:
    """What a loop invariant sees."""

    def __init__(self, ex, seq, k, n, entry, env, entry_env):
        self.ex, self.seq, self.k, self.n, self.entry, self.env, self.entry_env = ex, seq, k, n, entry, env, entry_env

    def done(self, x):
        """x has been processed in iterations [0,k)"""
        s = self.seq
        if isinstance(s, VRowList):
            return And(s.member(x), s.idx[x] < self.k)
        if hasattr(s, "pos"):
            return And(s.from_mem(x), s.pos[x] < self.k)
        raise Unsupported("done() on this iterable")

    def member(self, x):
        s = self.seq
        if isinstance(s, VRowList):
            return s.member(x)
        return s.from_mem(x)

    def var(self, name):
        return self.env[name]


def assigned_names(body):
    out = set()
    for s in body:
        for n in ast.walk(s):
            if isinstance(n, ast.Name) and isinstance(n.ctx, ast.Store):
                out.add(n.id)
    return out


def method_mutated_names(body):
    out = set()
    for st in body:
        for n in ast.walk(st):
            if isinstance(n, ast.Call) and isinstance(n.func, ast.Attribute) and isinstance(n.func.value, ast.Name) \
                    and n.func.attr in ("add", "append", "discard", "update", "extend", "clear"):
                out.add(n.func.value.id)
    return out


def exec_for(ex, s, env):
    if s.orelse:
        raise Unsupported("for/else at %d" % s.lineno)
    ordinal = ex.loop_ordinals.get(id(s), -1)      # (-1: a loop of a helper executed in place)
    it = ex.eval(s.iter, env)
    if isinstance(it, VDict) or (isinstance(it, VCursor) and it.kind in ("dictvalues", "dictitems")):
        # direct iteration over a registry dict: Python raises RuntimeError if the body changes its size
        fld = (it if isinstance(it, VDict) else it.d).field
        for n_ in ast.walk(ast.Module(body=s.body, type_ignores=[])):
            tgt = None
            if isinstance(n_, ast.Delete):
                tgt = n_.targets[0]
            elif isinstance(n_, ast.Assign):
                tgt = n_.targets[0]
            elif isinstance(n_, ast.Call) and isinstance(n_.func, ast.Attribute) and n_.func.attr in ("pop", "clear", "popitem", "setdefault"):
                tgt = n_.func.value
            if isinstance(tgt, ast.Subscript):
                tgt = tgt.value
            if isinstance(tgt, ast.Attribute) and tgt.attr == fld:
                raise Unsupported("loop at %d changes the dict it iterates over" % s.lineno)
    spec = ex.loop_specs.get(id(s))
    if isinstance(it, VTuple) and not it.items:
        return
    if isinstance(it, VTuple) and len(it.items) <= UNROLL_MAX and spec is None:
        for x in it.items:
            ex.assign(s.target, x, env)
            try:
                ex.exec_block(s.body, env)
            except PyContinue:
                continue
            except PyBreak:
                break
        return
    if isinstance(it, VConst) and isinstance(it.py, (range, tuple)) and len(it.py) <= UNROLL_MAX and spec is None:
        for x in it.py:
            ex.assign(s.target, VConst(x), env)
            try:
                ex.exec_block(s.body, env)
            except PyContinue:
                continue
            except PyBreak:
                break
        return
    seq = ex.as_sequence(it, s) if not isinstance(it, VCursor) else cursor_sequence(ex, it, s)
    if spec is not None:
        return exec_spec_loop(ex, s, env, seq, spec, spec.ordinal)
    return summarise(ex, s, env, seq)


def cursor_sequence(ex, cur, node):
    if cur.kind in ("dictvalues", "dictitems"):
        d = cur.d
        m = ex.st.heap["%s.%s" % (d.cls, d.field)][d.obj]
        n = fresh("dv.n", INT)
        en = fresh("dv.key", ArraySort(INT, Str))
        pos = fresh("dv.pos", ArraySort(Str, INT))
        ex.assume(n >= 0)
        ex.assume(FA([INT], lambda i: Implies(And(0 <= i, i < n), And(m[en[i]] != 0, pos[en[i]] == i)),
                     pats=lambda i: [en[i]]))
        ex.assume(FA([Str], lambda y: Implies(m[y] != 0, And(0 <= pos[y], pos[y] < n, en[pos[y]] == y)),
                     pats=lambda y: [pos[y]]))
        if cur.kind == "dictitems":
            lst = VList(n, lambda i: VTuple([VZ(en[i], "str"), VRef(m[en[i]], d.valcls)]))
        else:
            lst = VList(n, lambda i: VRef(m[en[i]], d.valcls))
        lst.pos, lst.keys, lst.map = pos, en, m
        lst.from_mem = lambda y: m[y] != 0
        lst.registry = ("%s.%s" % (d.cls, d.field), d.obj)
        return lst
    if cur.kind == "listenervalues":
        ls = ex.st.heap["Mailbox._listeners"][cur.obj]
        n = fresh("lv.n", INT)
        en = fresh("lv.h", ArraySort(INT, INT))
        pos = fresh("lv.pos", ArraySort(INT, INT))
        ex.assume(n >= 0)
        ex.assume(FA([INT], lambda i: Implies(And(0 <= i, i < n), And(ls[en[i]], pos[en[i]] == i)),
                     pats=lambda i: [en[i]]))
        ex.assume(FA([INT], lambda h: Implies(ls[h], And(0 <= pos[h], pos[h] < n, en[pos[h]] == h)),
                     pats=lambda h: [pos[h]]))
        lst = VList(n, lambda i: VTuple([VCallback("send", en[i]), VCallback("stop", en[i])]))
        lst.pos, lst.keys = pos, en
        lst.from_mem = lambda h: ls[h]
        lst.registry = ("Mailbox._listeners", cur.obj)
        return lst
    raise Unsupported("iteration over cursor %s at %d" % (cur.kind, node.lineno))


def exec_spec_loop(ex, s, env, seq, spec, ordinal):
    n = seq.n
    if hasattr(seq, "from_set"):
        st_ = seq.from_set
        seq.from_mem = lambda y: st_.mem[y]
    entry = ex.st.copy()
    entry_env = dict(env)
    con = ex.con

    def inv_terms(k):
        c = Ctx(ex.pre, ex.st, ex.argvals, ex.self_ref, con.cls)
        L = LoopView(ex, seq, k, n, entry, env, entry_env)
        return [(it[0], tobool(it[1]), (list(it[2]) if len(it) > 2 and it[2] is not None else None))
                for it in spec.inv(c, L)]

    for nm, t, uses in inv_terms(IntVal(0)):
        ex.oblige("loop%d.init.%s" % (ordinal, nm), t, spec.tags or con.tags, s.lineno, "loop", uses=uses)
    choice = ex.p.decide(2, "loop%d" % ordinal)
    # havoc what the body may modify
    for comp in spec.modifies:
        ex.st.havoc(comp, "loop%d" % ordinal)
    for nm in assigned_names(s.body) | assigned_names([ast.Expr(s.target)]):
        env.pop(nm, None)
    # a local container mutated in the body (x.add(..), x.append(..)) that the loop contract does not declare: its
    # contents are unknown at the head of an arbitrary iteration and after the loop
    for nm in method_mutated_names(s.body):
        if nm in env and nm not in [l for l, _ in spec.locals] and isinstance(env[nm], (VAcc, VSet, VList, VBag, VUnknownColl)):
            env[nm] = VUnknownColl("local %s mutated in loop %d" % (nm, ordinal))
    for nm, sp in spec.locals:
        v, facts = make_symbolic(sp, "loop%d.%s" % (ordinal, nm))
        for f in facts:
            ex.assume(f)
        env[nm] = v
    if choice == 0:
        k = fresh("k", INT)
        ex.assume(And(0 <= k, k < n))
        for nm, t, uses in inv_terms(k):
            ex.assume(t)
        # if the facts force k = 0 (at-most-one-iteration loops), continue with the literal 0
        if implied(ex, k == 0):
            k = IntVal(0)
        head = ex.st.copy()
        ex.assign(s.target, seq.at(k), env)
        try:
            ex.exec_block(s.body, env)
        except PyContinue:
            pass            # this iteration ends here; the invariant must hold for the next one all the same
        except PyBreak:
            return          # the loop ends in this (arbitrary) iteration: execution continues after it
        for nm, t, uses in inv_terms(k + 1):
            ex.oblige("loop%d.preserve.%s" % (ordinal, nm), t, spec.tags or con.tags, s.lineno, "loop", uses=uses)
        if spec.step is not None:
            c_ = Ctx(ex.pre, ex.st, ex.argvals, ex.self_ref, con.cls)
            L_ = LoopView(ex, seq, k, n, entry, env, entry_env)
            L_.elem = seq.at(k)
            for it in spec.step(c_, L_, head):
                ex.oblige("loop%d.step.%s" % (ordinal, it[0]), tobool(it[1]), (list(it[2]) if len(it) > 2 else None) or spec.tags or con.tags,
                          s.lineno, "loop")
        for name in ex.st.components():
            if name in spec.modifies:
                continue
            a, b = head.get_comp(name), ex.st.get_comp(name)
            from .state import comp_eq, ident
            if ident(a, b):
                continue
            from .symex import frame_tags
            ex.oblige("loop%d.frame.%s" % (ordinal, name), comp_eq(name, a, b), frame_tags(name, con.tags), s.lineno, "frame")
        raise LoopEnd()
    for nm, t, uses in inv_terms(n):
        ex.assume(t)
    return


def implied(ex, fact, timeout_ms=20000):
    """pc |= fact ?  First from the quantifier-free facts only (fast, load-insensitive)."""
    from .zs import base_axioms

    memo = {}

    def has_quant(t):
        i = t.get_id()
        if i not in memo:
            memo[i] = True if z3.is_quantifier(t) else any(has_quant(c) for c in t.children())
        return memo[i]
    sv = z3.SimpleSolver()
    sv.set("timeout", timeout_ms)
    for h in ex.p.pc:
        if not has_quant(h):
            sv.add(h)
    sv.add(Not(fact))
    if sv.check() == z3.unsat:
        return True
    return False


def summarise(ex, s, env, seq):
    """Exact summary of a pure accumulation loop."""
    p = ex.p
    i = fresh("li", INT)
    npc, nobl = len(p.pc), len(p.obls)
    saved_env = dict(env)
    saved_st = ex.st.copy()
    if getattr(seq, "range_bounds", None):
        lo, hi = seq.range_bounds      # quantify over the values themselves
        dom = lambda j: And(lo <= j, j < hi)
        elem = lambda j: VZ(j, "int")
    else:
        dom = lambda j: And(0 <= j, j < seq.n)
        elem = seq.at
    stack = [[]]
    contributions = {}   # id(acc) -> (acc, [(cond, V)])
    counts = []
    returns = []         # (path condition of an iteration that returns, constant returned)
    seen = nobl
    while stack:
        prefix = stack.pop()
        sub = SubDecider(prefix)
        env2 = dict(saved_env)
        ex.st = saved_st.copy()
        del p.pc[npc:]
        ex.assume(dom(i))
        rec = []
        old_decide, old_rec = p.decide, getattr(ex, "recorder", None)
        p.decide = sub.decide
        ex.recorder = rec
        returned = None
        try:
            ex.assign(s.target, elem(i), env2)
            ex.exec_block(s.body, env2)
        except PyContinue:
            pass
        except PyReturn as r_:
            # `for x in xs: if test(x): return <constant>` in a pure loop: the function returns iff some element passes
            if not isinstance(r_.v, VConst) or rec:
                raise Unsupported("return of a computed value / after an accumulation inside a loop without a loop contract at %d"
                                  % s.lineno)
            returned = r_.v
        except (PyRaise, PyBreak):
            raise Unsupported("raise/break inside a loop without a loop contract at %d" % s.lineno)
        finally:
            p.decide = old_decide
            ex.recorder = old_rec
        for name in ex.st.components():
            a, b = saved_st.get_comp(name), ex.st.get_comp(name)
            from .state import ident
            if not ident(a, b):
                raise Unsupported("loop at %d modifies %s and has no loop contract" % (s.lineno, name))
        for o in p.obls[seen:]:
            o.extra_hyps = list(p.pc[npc:o.nhyps]) + o.extra_hyps
            o.nhyps = npc
        seen = len(p.obls)
        pathcond = conj(p.pc[npc:])
        if returned is not None:
            returns.append((pathcond, returned))
            for idx in range(len(prefix), len(sub.decisions)):
                for alt in range(1, sub.width[idx]):
                    stack.append(sub.decisions[:idx] + [alt])
            continue
        for (acc, val, ncond) in rec:
            cond = conj(p.pc[npc:ncond])
            contributions.setdefault(id(acc), (acc, []))[1].append((cond, val))
        counts.append((pathcond, [id(a) for a, _, _ in rec]))
        for idx in range(len(prefix), len(sub.decisions)):
            for alt in range(1, sub.width[idx]):
                stack.append(sub.decisions[:idx] + [alt])
    del p.pc[npc:]
    ex.st = saved_st
    for nm in assigned_names(s.body) | assigned_names([ast.Expr(s.target)]):
        if nm in env and not isinstance(env[nm], VAcc):
            env.pop(nm)
    if returns:
        if contributions or len(set(repr(v.py) for _, v in returns)) != 1:
            raise Unsupported("early return mixed with accumulation / different constants in a loop without a loop contract at %d"
                              % s.lineno)
        some = EX([INT], lambda j: And(dom(j), disj([z3.substitute(c, (i, j)) for c, _ in returns])))
        if ex.branch(some, "loop@%d returns" % s.lineno):
            raise PyReturn(returns[0][1])
    n = seq.n
    for _, (acc, contrib) in contributions.items():
        cur = acc.cur
        if isinstance(cur, VSet):
            k = None
            for cond, val in contrib:
                kk = kind_of(val)
                if k is not None and kk != k:
                    raise Unsupported("mixed-kind set accumulator")
                k = kk
            if cur.kind is not None and cur.kind != k:
                raise Unsupported("mixed-kind set accumulator")
            mem = fresh("acc.set", ArraySort(sort_of(k), BOOL))
            oldmem = cur.mem
            # membership, as two implications with E-matching friendly shapes:
            #  every contribution is a member; every member is old or a contribution
            for cond, val in contrib:
                vt = to_term(val, k)
                ex.assume(FA([INT], lambda j, cond=cond, vt=vt: Implies(
                    And(dom(j), z3.substitute(cond, (i, j))), mem[z3.substitute(vt, (i, j))])))
            if oldmem is not None:
                ex.assume(FA([sort_of(k)], lambda y: Implies(oldmem[y], mem[y]), pats=lambda y: [oldmem[y]]))

            def rhs(y, contrib=contrib, k=k, oldmem=oldmem):
                ex_ = EX([INT], lambda j: And(dom(j), disj(
                    [And(z3.substitute(cond, (i, j)), z3.substitute(to_term(val, k), (i, j)) == y)
                     for cond, val in contrib])))
                return Or(oldmem[y], ex_) if oldmem is not None else ex_
            ex.assume(FA([sort_of(k)], lambda y: Implies(mem[y], rhs(y)), pats=lambda y: [mem[y]]))
            acc.cur = VSet(k, mem)
        elif isinstance(cur, VList):
            if not cur.n.eq(IntVal(0)):
                raise Unsupported("append to a non-empty list in a loop")
            always_once = all(ids.count(id(acc)) == 1 for _, ids in counts)
            if always_once and len(counts) == 1:
                val = contrib[0][1]
                if getattr(seq, "range_bounds", None):
                    raise Unsupported("list built over a range at %d" % s.lineno)
                acc.cur = VList(n, lambda kk, val=val: vsubst(val, i, kk))
                if isinstance(seq, VRowList):
                    acc.cur.origin = seq
            elif all(ids.count(id(acc)) <= 1 for _, ids in counts):
                # appended at most once per iteration, under a condition: what a filtered comprehension builds;
                # known through membership only (order and multiplicity are not tracked)
                vals = [v for _, v in contrib]
                ks = set(kind_of(v.val) if isinstance(v, VOpt) else kind_of(v) for v in vals)
                if len(ks) != 1 or list(ks)[0] not in ("str", "int", "real", "bool", "json"):
                    raise Unsupported("conditional append of structured values in a loop at %d" % s.lineno)
                k = list(ks)[0]

                def contains(y, contrib=contrib, k=k):
                    def one(cond, val, j):
                        c = z3.substitute(cond, (i, j))
                        if isinstance(val, VOpt):
                            return And(c, Not(z3.substitute(val.is_none, (i, j))), z3.substitute(to_term(val.val, k), (i, j)) == y)
                        return And(c, z3.substitute(to_term(val, k), (i, j)) == y)
                    return EX([INT], lambda j: And(dom(j), disj([one(c, v, j) for c, v in contrib])))
                nonempty = EX([INT], lambda j: And(dom(j), disj([z3.substitute(c, (i, j)) for c, _ in contrib])))
                bag = VBag(k, contains, nonempty)
                bag.bound = n
                acc.cur = bag
            else:
                raise Unsupported("several appends per iteration in a loop at %d" % s.lineno)
        else:
            raise Unsupported("accumulator %r" % (cur,))


def acc_call(ex, acc, name, args, e):
    rec = getattr(ex, "recorder", None)
    if rec is None:
        raise Unsupported("%s() on an accumulator outside a loop body at %d" % (name, e.lineno))
    if name in ("add", "append") and len(args) == 1:
        rec.append((acc, args[0], len(ex.p.pc)))
        return VConst(None)
    raise Unsupported("accumulator method %s" % name)
