"""z3 sorts, naming and quantifier helpers shared by the whole VC generator.

Everything that builds a quantifier goes through FA/EX so that bound-variable
names never clash and so that patterns can be attached in one place.
"""
import itertools
import z3
from z3 import (And, Or, Not, Implies, If, BoolVal, IntVal, RealVal, Const,
                Function, Array, Store, Select, IntSort, BoolSort, RealSort,
                ArraySort, DeclareSort, ForAll, Exists, is_true, is_false,
                simplify, K)

Str = DeclareSort("Str")      # A4: uninterpreted strings with equality
Json = DeclareSort("Json")    # A9: opaque JSON values (msg ids, ping payloads)
INT, BOOL, REAL = IntSort(), BoolSort(), RealSort()

EMPTY = Const("str!empty", Str)
JNULL = Const("json!null", Json)

_str_consts = {}


def S(py):
    """z3 constant for a Python string literal. Distinct literals are distinct
    (axiom emitted by base_axioms())."""
    if py == "":
        return EMPTY
    if py not in _str_consts:
        safe = "".join(ch if (ch.isalnum() or ch == "_") else "$%02x" % ord(ch) for ch in py)
        _str_consts[py] = Const("str!" + safe, Str)
    return _str_consts[py]


dec = Function("dec", INT, Str)        # "%d" % i
undec = Function("undec", Str, INT)
ndigits = Function("ndigits", INT, INT)
jstr = Function("jstr", Str, Json)     # a JSON string value
unjstr = Function("unjstr", Json, Str)
jnum = Function("jnum", REAL, Json)
unjnum = Function("unjnum", Json, REAL)
str_le = Function("str_le", Str, Str, BOOL)  # A4: uninterpreted total order


EXTRA_AXIOMS = []     # definitions of specification functions, registered by contract modules


def base_axioms():
    """A4 axioms: literal distinctness, dec injective, digit counts; spec-function definitions."""
    ax = list(EXTRA_AXIOMS)
    lits = list(_str_consts.values()) + [EMPTY]
    if len(lits) > 1:
        ax.append(z3.Distinct(*lits))
    i = Const("ax!i", INT)
    s = Const("ax!s", Str)
    ax.append(ForAll([i], undec(dec(i)) == i, patterns=[dec(i)]))
    ax.append(ForAll([i], dec(i) != EMPTY, patterns=[dec(i)]))
    ax.append(ForAll([s], unjstr(jstr(s)) == s, patterns=[jstr(s)]))
    ax.append(ForAll([s], jstr(s) != JNULL, patterns=[jstr(s)]))
    x = Const("ax!x", REAL)
    ax.append(ForAll([x], unjnum(jnum(x)) == x, patterns=[jnum(x)]))
    ax.append(ForAll([i], Implies(And(i >= 1, i <= 9), ndigits(i) == 1), patterns=[ndigits(i)]))
    ax.append(ForAll([i], Implies(And(i >= 10, i <= 99), ndigits(i) == 2), patterns=[ndigits(i)]))
    ax.append(ForAll([i], Implies(And(i >= 100, i <= 999), ndigits(i) == 3), patterns=[ndigits(i)]))
    ax.append(ForAll([i], Implies(And(i >= 1000, i <= 999999),
                                  And(ndigits(i) >= 4, ndigits(i) <= 6)), patterns=[ndigits(i)]))
    return ax


class Namer:
    """Deterministic fresh names; reset at the start of every path so that the
    same path always yields the same symbols."""

    def __init__(self):
        self.n = itertools.count()

    def reset(self):
        self.n = itertools.count()

    def fresh(self, base, sort):
        return Const("%s!%d" % (base, next(self.n)), sort)

    def fresh_fun(self, base, *sorts):
        return Function("%s!%d" % (base, next(self.n)), *sorts)


NAMER = Namer()
fresh = NAMER.fresh
fresh_fun = NAMER.fresh_fun
_bv = [itertools.count()]


def reset_bound():
    """deterministic bound-variable names per path (contract-level axioms use the range below 100000)"""
    _bv[0] = itertools.count(100000)


def bound(sort, base="q"):
    return Const("%s?%d" % (base, next(_bv[0])), sort)


def FA(sorts, body, pats=None):
    """ForAll over fresh bound constants. sorts: list of sorts; body: fn(*vars)."""
    vs = [bound(s) for s in sorts]
    b = body(*vs)
    if pats is not None:
        p = pats(*vs)
        if p:
            try:
                return ForAll(vs, b, patterns=p)
            except z3.Z3Exception:
                pass        # (a trigger containing arithmetic is not a valid pattern: let the solver choose)
    return ForAll(vs, b)


def EX(sorts, body):
    vs = [bound(s) for s in sorts]
    return Exists(vs, body(*vs))


def conj(xs):
    xs = [x for x in xs]
    if not xs:
        return BoolVal(True)
    if len(xs) == 1:
        return xs[0]
    return And(*xs)


def disj(xs):
    xs = [x for x in xs]
    if not xs:
        return BoolVal(False)
    if len(xs) == 1:
        return xs[0]
    return Or(*xs)


def tobool(x):
    if isinstance(x, bool):
        return BoolVal(x)
    return x


def sort_of(kind):
    return {"str": Str, "bool": BOOL, "int": INT, "real": REAL, "json": Json}[kind]
