"""SQL beyond the legacy forms of state.parse_sql (`col=? AND ...` on one table).

Only statements the legacy regular expressions reject come here, so the formulas generated for
the statements of the unchanged tree are exactly what they were.  Grammar:

  SELECT [DISTINCT] sel FROM t [[AS] a] [JOIN t2 [[AS] b] ON colref = colref] [WHERE e]
         [ORDER BY colref [ASC|DESC]]
  UPDATE t SET `c`=? [, ...] WHERE e          DELETE FROM t [WHERE e]
  sel  := * | a.* | colref [AS k] {, colref [AS k]}
  e    := e OR e | e AND e | NOT e | ( e ) | x cmp y | x IS [NOT] NULL
        | x [NOT] IN ( SELECT colref FROM t [[AS] a] [WHERE e] ) | x [NOT] IN ( y {, y} )
  x, y := colref | ? | number | 'string'          cmp := = == != <> < <= > >=

Semantics: SQL three-valued logic (a comparison with NULL is unknown; WHERE keeps the rows whose
condition is true).  A JOIN is supported when its ON clause equates a column of one table with the
PRIMARY KEY of the other (every join this schema suggests): each row of the referencing table pairs
with at most one row of the referenced table - uniqueness of a PRIMARY KEY is enforced by SQLite
itself (assumption A6).  Everything else raises Unsupported (the function is then undecided)."""
import re
from .zs import *  # noqa
from .values import *  # noqa
from .state import SqlStmt

TOK = re.compile(r"\s*(?:(`\w+`)|(\d+\.\d+|\d+)|('(?:[^']|'')*')|(==|!=|<>|<=|>=|[=<>(),.*?;])|(\w+))")
KEYWORDS = {"SELECT", "DISTINCT", "FROM", "JOIN", "INNER", "ON", "WHERE", "AND", "OR", "NOT", "IS", "NULL", "IN", "AS", "ORDER",
            "BY", "ASC", "DESC", "UPDATE", "SET", "DELETE", "LIMIT", "LEFT", "OUTER", "GROUP", "HAVING", "UNION", "COUNT", "INSERT"}


def tokenize(s):
    out, i = [], 0
    s = s.strip()
    while i < len(s):
        m = TOK.match(s, i)
        if not m or m.end() == i:
            raise Unsupported("SQL token at %r in %r" % (s[i:i + 12], s))
        i = m.end()
        if m.group(1):
            out.append(("id", m.group(1)[1:-1]))
        elif m.group(2):
            out.append(("num", m.group(2)))
        elif m.group(3):
            out.append(("str", m.group(3)[1:-1].replace("''", "'")))
        elif m.group(4):
            out.append(("op", m.group(4)))
        else:
            w = m.group(5)
            out.append(("kw", w.upper()) if w.upper() in KEYWORDS else ("id", w))
    return out


class P:
    def __init__(self, toks, text):
        self.t, self.i, self.text, self.nparams = toks, 0, text, 0

    def peek(self, k=0):
        return self.t[self.i + k] if self.i + k < len(self.t) else ("end", "")

    def next(self):
        x = self.peek()
        self.i += 1
        return x

    def accept(self, kind, val=None):
        x = self.peek()
        if x[0] == kind and (val is None or x[1] == val):
            self.i += 1
            return x
        return None

    def expect(self, kind, val=None):
        x = self.accept(kind, val)
        if not x:
            raise Unsupported("SQL: expected %s %s at token %d of %r" % (kind, val or "", self.i, self.text))
        return x

    def colref(self):
        a = self.expect("id")[1]
        if self.peek() == ("op", ".") and self.peek(1)[0] == "id":
            self.next()
            return ("col", a, self.next()[1])
        return ("col", None, a)

    def operand(self):
        x = self.peek()
        if x == ("op", "?"):
            self.next()
            self.nparams += 1
            return ("param", self.nparams - 1)
        if x[0] == "num":
            self.next()
            return ("num", x[1])
        if x[0] == "str":
            self.next()
            return ("str", x[1])
        if x == ("kw", "NULL"):
            self.next()
            return ("null",)
        if x[0] == "id":
            return self.colref()
        raise Unsupported("SQL operand %r in %r" % (x, self.text))

    def table_ref(self):
        t = self.expect("id")[1]
        alias = t
        if self.accept("kw", "AS"):
            alias = self.expect("id")[1]
        elif self.peek()[0] == "id":
            alias = self.next()[1]
        return t, alias

    def expr(self):
        e = self.and_()
        while self.accept("kw", "OR"):
            e = ("or", e, self.and_())
        return e

    def and_(self):
        e = self.not_()
        while self.accept("kw", "AND"):
            e = ("and", e, self.not_())
        return e

    def not_(self):
        if self.accept("kw", "NOT"):
            return ("not", self.not_())
        return self.atom()

    def atom(self):
        if self.peek() == ("op", "(") and self.peek(1) != ("kw", "SELECT"):
            self.next()
            e = self.expr()
            self.expect("op", ")")
            return e
        x = self.operand()
        if self.accept("kw", "IS"):
            neg = bool(self.accept("kw", "NOT"))
            self.expect("kw", "NULL")
            e = ("isnull", x)
            return ("not", e) if neg else e
        neg = bool(self.accept("kw", "NOT"))
        if self.accept("kw", "IN"):
            self.expect("op", "(")
            if self.accept("kw", "SELECT"):
                c = self.colref()
                self.expect("kw", "FROM")
                t, a = self.table_ref()
                w = self.expr() if self.accept("kw", "WHERE") else None
                self.expect("op", ")")
                e = ("insel", x, c, t, a, w)
            else:
                items = [self.operand()]
                while self.accept("op", ","):
                    items.append(self.operand())
                self.expect("op", ")")
                e = None
                for it in items:
                    c = ("cmp", "=", x, it)
                    e = c if e is None else ("or", e, c)
            return ("not", e) if neg else e
        if neg:
            raise Unsupported("SQL NOT before %r in %r" % (self.peek(), self.text))
        op = self.peek()
        if op[0] == "op" and op[1] in ("=", "==", "!=", "<>", "<", "<=", ">", ">="):
            self.next()
            y = self.operand()
            return ("cmp", {"==": "=", "<>": "!="}.get(op[1], op[1]), x, y)
        raise Unsupported("SQL condition at %r in %r" % (op, self.text))


def parse(text):
    """-> SqlStmt with .general = True; raises Unsupported outside the grammar"""
    s = " ".join(text.split()).rstrip(";").strip()
    p = P(tokenize(s), s)
    st = SqlStmt()
    st.text, st.general = s, True
    st.join = st.where_ast = st.order = st.order_desc = None
    st.distinct = None
    st.where, st.cols, st.sets = [], [], []
    if p.accept("kw", "SELECT"):
        st.kind = "select"
        st.distinct_flag = bool(p.accept("kw", "DISTINCT"))
        st.sel = []
        if p.accept("op", "*"):
            st.sel = "*"
        else:
            while True:
                if p.peek()[0] == "id" and p.peek(1) == ("op", ".") and p.peek(2) == ("op", "*"):
                    a = p.next()[1]
                    p.next()
                    p.next()
                    st.sel.append(("star", a))
                else:
                    c = p.colref()
                    k = c[2]
                    if p.accept("kw", "AS"):
                        k = p.expect("id")[1]
                    st.sel.append(("col", c, k))
                if not p.accept("op", ","):
                    break
        p.expect("kw", "FROM")
        st.table, st.alias = p.table_ref()
        p.accept("kw", "INNER")
        if p.accept("kw", "JOIN"):
            t2, a2 = p.table_ref()
            p.expect("kw", "ON")
            l = p.colref()
            if not (p.accept("op", "=") or p.accept("op", "==")):
                raise Unsupported("SQL JOIN condition in %r" % s)
            r = p.colref()
            st.join = (t2, a2, l, r)
        if p.accept("kw", "WHERE"):
            st.where_ast = p.expr()
        if p.accept("kw", "ORDER"):
            p.expect("kw", "BY")
            st.order = p.colref()
            if p.accept("kw", "DESC"):
                st.order_desc = True
            else:
                p.accept("kw", "ASC")
    elif p.accept("kw", "UPDATE"):
        st.kind = "update"
        st.table = st.alias = p.expect("id")[1]
        p.expect("kw", "SET")
        while True:
            c = p.colref()
            p.expect("op", "=")
            v = p.operand()
            st.sets.append((c[2], v))
            if not p.accept("op", ","):
                break
        if p.accept("kw", "WHERE"):
            st.where_ast = p.expr()
    elif p.accept("kw", "DELETE"):
        st.kind = "delete"
        p.expect("kw", "FROM")
        st.table = st.alias = p.expect("id")[1]
        if p.accept("kw", "WHERE"):
            st.where_ast = p.expr()
    else:
        raise Unsupported("SQL statement outside the grammar: %r" % s)
    if p.peek()[0] != "end":
        raise Unsupported("SQL: trailing %r in %r" % (p.peek(), s))
    st.nparams = p.nparams
    return st


# ---------------------------------------------------------------------------------------------
class Scope:
    """alias -> (table snapshot, row term); resolves column references, innermost first"""

    def __init__(self, ex, e, db, parent=None):
        self.ex, self.e, self.db, self.parent = ex, e, db, parent
        self.rows = {}      # alias -> (tbl, rowterm)
        self.order = []

    def add(self, alias, tbl, r):
        self.rows[alias] = (tbl, r)
        self.order.append(alias)

    def fail(self, what):
        self.ex.require(BoolVal(False), "OperationalError", self.e)
        raise Unsupported("%s at %d" % (what, self.e.lineno))

    def resolve(self, col):
        _, a, c = col
        sc = self
        while sc is not None:
            if a is not None:
                if a in sc.rows:
                    tbl, r = sc.rows[a]
                    if not tbl.sch.has(c):
                        self.fail("no column %s.%s" % (a, c))
                    return tbl, r, c
            else:
                hits = [x for x in sc.order if sc.rows[x][0].sch.has(c)]
                if len(hits) > 1:
                    self.fail("ambiguous column %s" % c)
                if hits:
                    tbl, r = sc.rows[hits[0]]
                    return tbl, r, c
            sc = sc.parent
        self.fail("no such column %s" % (c if a is None else a + "." + c))


def table(ex, db, name, e):
    key = "%s.%s" % (db, name)
    if key not in ex.st.tabs:
        ex.require(BoolVal(False), "OperationalError", e)
        raise Unsupported("no table %s at %d" % (key, e.lineno))
    return key, ex.st.t(key)


def literal(x, kind):
    if x[0] == "num":
        if kind == "bool":
            return BoolVal(float(x[1]) != 0)
        if kind == "int" and "." not in x[1]:
            return IntVal(int(x[1]))
        if kind == "real":
            return RealVal(x[1])
    if x[0] == "str" and kind == "str":
        return S(x[1])
    raise Unsupported("SQL literal %r against a %s column" % (x, kind))


def operand(x, scope, params, kind_hint):
    """-> (isnull, term, kind)"""
    if x[0] == "col":
        tbl, r, c = scope.resolve(x)
        return tbl.isnull(c, r), tbl.get(c, r), tbl.sch.col(c).kind
    if x[0] == "null":
        return BoolVal(True), default_term(kind_hint), kind_hint
    if x[0] == "param":
        isn, t = to_opt(params[x[1]], kind_hint)
        return isn, t, kind_hint
    return BoolVal(False), literal(x, kind_hint), kind_hint


def kind_of(x, scope):
    if x[0] == "col":
        tbl, r, c = scope.resolve(x)
        return tbl.sch.col(c).kind
    return None


def ev(ast, scope, params):
    """three-valued evaluation -> (is_true, is_false)"""
    k = ast[0]
    if k == "and":
        a, b = ev(ast[1], scope, params), ev(ast[2], scope, params)
        return And(a[0], b[0]), Or(a[1], b[1])
    if k == "or":
        a, b = ev(ast[1], scope, params), ev(ast[2], scope, params)
        return Or(a[0], b[0]), And(a[1], b[1])
    if k == "not":
        a = ev(ast[1], scope, params)
        return a[1], a[0]
    if k == "isnull":
        kind = kind_of(ast[1], scope) or "str"
        isn, t, _ = operand(ast[1], scope, params, kind)
        return isn, Not(isn)
    if k == "cmp":
        op, x, y = ast[1], ast[2], ast[3]
        kind = kind_of(x, scope) or kind_of(y, scope)
        if kind is None:
            raise Unsupported("SQL comparison without a column")
        xn, xt, xk = operand(x, scope, params, kind)
        yn, yt, yk = operand(y, scope, params, kind)
        if xk != yk and not {xk, yk} <= {"int", "real"}:
            raise Unsupported("SQL comparison of %s with %s" % (xk, yk))
        if xk != yk:
            xt = ToReal(xt) if xk == "int" else xt
            yt = ToReal(yt) if yk == "int" else yt
        if op in ("=", "!="):
            c = xt == yt
            if op == "!=":
                c = Not(c)
        else:
            if kind not in ("int", "real"):
                raise Unsupported("SQL ordering comparison on a %s column" % kind)
            c = {"<": xt < yt, "<=": xt <= yt, ">": xt > yt, ">=": xt >= yt}[op]
        known = And(Not(xn), Not(yn))
        return And(known, c), And(known, Not(c))
    if k == "insel":
        _, x, c, t, a, w = ast
        kind = kind_of(x, scope)
        key, tbl = table(scope.ex, scope.db, t, scope.e)

        def inner(q):
            sc = Scope(scope.ex, scope.e, scope.db, parent=scope)
            sc.add(a, tbl, q)
            tb2, r2, c2 = sc.resolve(c)
            if tb2 is not tbl:
                raise Unsupported("SQL sub-select column of an outer table")
            wt = ev(w, sc, params)[0] if w is not None else BoolVal(True)
            return And(tbl.live[q], wt), tbl.isnull(c2, q), tbl.get(c2, q), tbl.sch.col(c2).kind
        k0 = inner(Const("q!probe", INT))[3]
        if kind is None:
            kind = k0
        xn, xt, xk = operand(x, scope, params, kind)
        if xk != k0:
            raise Unsupported("SQL IN over %s and %s" % (xk, k0))
        is_true = And(Not(xn), EX([INT], lambda q: And(inner(q)[0], Not(inner(q)[1]), inner(q)[2] == xt)))
        empty = Not(EX([INT], lambda q: inner(q)[0]))
        no_null = Not(EX([INT], lambda q: And(inner(q)[0], inner(q)[1])))
        is_false = Or(empty, And(Not(xn), no_null, Not(is_true)))
        return is_true, is_false
    raise Unsupported("SQL expression %r" % (k,))


def prepare_select(ex, conn, stt, params, e):
    """-> VCursor for a general SELECT"""
    db = conn.which
    key, tbl = table(ex, db, stt.table, e)
    drive_alias, drive_tbl = stt.alias, tbl
    other = None
    if stt.join:
        t2, a2, l, r = stt.join
        key2, tbl2 = table(ex, db, t2, e)
        probe = Scope(ex, e, db)
        probe.add(stt.alias, tbl, Const("r!probe", INT))
        probe.add(a2, tbl2, Const("p!probe", INT))
        lt, _, lc = probe.resolve(l)
        rt, _, rc = probe.resolve(r)
        if lt is rt:
            raise Unsupported("SQL JOIN condition within one table at %d" % e.lineno)
        if rt.sch.col(rc).pk:
            child, fk, parent, pk = lt, lc, rt, rc
        elif lt.sch.col(lc).pk:
            child, fk, parent, pk = rt, rc, lt, lc
        else:
            raise Unsupported("SQL JOIN that is not on a PRIMARY KEY at %d" % e.lineno)
        if len([c for c in parent.sch.cols if c.pk]) != 1:
            raise Unsupported("SQL JOIN on a composite key")
        child_alias = stt.alias if child is tbl else a2
        parent_alias = a2 if child is tbl else stt.alias
        if child.sch.col(fk).kind != parent.sch.col(pk).kind:
            raise Unsupported("SQL JOIN over different column types")
        pcol = parent.sch.col(pk)
        if pcol.kind == "int":
            par = lambda r: child.get(fk, r)       # INTEGER PRIMARY KEY is the rowid
        else:
            pa = fresh("joinrow", ArraySort(INT, INT))
            ex.assume(FA([INT], lambda r: Implies(
                And(child.live[r], Not(child.isnull(fk, r)),
                    EX([INT], lambda p: And(parent.live[p], parent.get(pk, p) == child.get(fk, r)))),
                And(parent.live[pa[r]], parent.get(pk, pa[r]) == child.get(fk, r))), pats=lambda r: [pa[r]]))
            par = lambda r: pa[r]
        drive_alias, drive_tbl = child_alias, child
        other = (parent_alias, parent, par, fk, pk)

    def scope_at(r):
        sc = Scope(ex, e, db)
        sc.add(drive_alias, drive_tbl, r)
        if other:
            sc.add(other[0], other[1], other[2](r))
        return sc

    def pred(r):
        cs = []
        if other:
            pa_, parent, par, fk, pk = other
            cs += [Not(drive_tbl.isnull(fk, r)), parent.live[par(r)], parent.get(pk, par(r)) == drive_tbl.get(fk, r)]
        if stt.where_ast is not None:
            cs.append(ev(stt.where_ast, scope_at(r), params)[0])
        return conj(cs)
    probe = scope_at(Const("r!probe", INT))
    pred(Const("r!probe", INT))         # resolve every column now (errors surface at execute())
    # the selected columns
    view = None
    if stt.sel != "*" or other:
        items = []       # (key, ('col', alias, name))
        if stt.sel == "*":
            sel = [("star", a) for a in ([stt.alias, stt.join[1]] if other else [stt.alias])]
        else:
            sel = stt.sel
        for it in sel:
            if it[0] == "star":
                if it[1] not in probe.rows:
                    probe.fail("no such table %s" % it[1])
                for c in probe.rows[it[1]][0].sch.cols:
                    items.append((c.name, ("col", it[1], c.name)))
            else:
                probe.resolve(it[1])
                items.append((it[2], it[1]))
        keys = [k for k, _ in items]
        if len(set(keys)) != len(keys):
            raise Unsupported("SQL result with duplicate column names at %d" % e.lineno)
        if not (len(sel) == 1 and sel[0] == ("star", drive_alias)):
            def view(r, items=items):
                sc = scope_at(r)
                return {k: sc.resolve(c) for k, c in items}
    order = None
    if stt.order:
        ot, _, oc = probe.resolve(stt.order)
        if ot is not drive_tbl or stt.order_desc:
            raise Unsupported("SQL ORDER BY of a joined column / DESC at %d" % e.lineno)
        if ot.sch.col(oc).kind not in ("int", "real"):
            raise Unsupported("SQL ORDER BY on a non-numeric column")
        order = oc
    stt.order_col = order
    if stt.distinct_flag:
        if view is None:
            raise Unsupported("SELECT DISTINCT * at %d" % e.lineno)
        v0 = view(Const("r!probe", INT))
        if len(v0) != 1:
            raise Unsupported("SELECT DISTINCT of several columns at %d" % e.lineno)
        k = list(v0)[0]
        t0, _, c0 = v0[k]
        if t0.sch.col(c0).nullable:
            raise Unsupported("SELECT DISTINCT of a nullable column")
        return VCursor("select", tbl=drive_tbl, pred=pred, stt=stt, view=view, distinct_key=k)
    return VCursor("select", tbl=drive_tbl, pred=pred, stt=stt, view=view, distinct_key=None)


def where_general(ex, conn, stt, tbl, params, e):
    """row predicate of a general UPDATE / DELETE"""
    def pred(r):
        if stt.where_ast is None:
            return BoolVal(True)
        sc = Scope(ex, e, conn.which)
        sc.add(stt.alias, tbl, r)
        return ev(stt.where_ast, sc, params)[0]
    pred(Const("r!probe", INT))
    return pred
