"""Symbolic execution of database.py over the file-system model (DESIGN 4.6).

The real ASTs of the functions of database.py are interpreted statement by statement.  File
contents are symbolic (opaque tokens for user rows and for exact bytes); what is enumerated is only
the *class* of a file (absent / not a database / database with a given set of DDL statements and
given rows of the `version` table).  Library calls follow the assumed contracts A13 (os, tempfile,
shutil) and A6/A7 (sqlite3: legacy transaction control, executescript autocommits each statement
unless the script says BEGIN).  Every call that writes is a step; after every step the on-disk state
(the state a crash would leave, A8) is recorded as a crash point.
"""
import ast
import os
import re
import itertools
from .state import PKG, split_statements
from .values import Unsupported

_tok = itertools.count()


def fresh_token(base):
    return "%s#%d" % (base, next(_tok))


class FState:
    """on-disk state of one path"""

    def __init__(self, kind, schema=frozenset(), version=None, rows="R", bytes_id=None, fk_ok=True):
        self.kind = kind              # 'absent' | 'junk' | 'db'
        self.schema = frozenset(schema)   # normalised DDL statements
        self.version = version        # None: no `version` table; else tuple of the values of its rows
        self.rows = rows              # opaque token: every record of every other table
        self.bytes_id = bytes_id or fresh_token("bytes")
        self.fk_ok = fk_ok

    def key(self):
        return (self.kind, self.schema, self.version, self.rows, self.fk_ok)

    def same_content(self, o):
        return self.key() == o.key()

    def __repr__(self):
        if self.kind != "db":
            return "<%s %s>" % (self.kind, self.bytes_id)
        return "<db tables=%s version=%s rows=%s bytes=%s>" % (
            sorted(t for t in table_names(self.schema)), self.version, self.rows, self.bytes_id)


ABSENT = FState("absent", bytes_id="none")


def norm_ddl(stmt):
    return " ".join(stmt.replace("`", "").split()).lower()


def table_names(schema):
    out = set()
    for s in schema:
        m = re.match(r"create table (\w+)", s)
        if m:
            out.add(m.group(1))
    return out


def load_script(name):
    return open(os.path.join(PKG, "db-schemas", name)).read()


def fresh_schema(name, version):
    """schema of a database freshly created from <name>-v<version>.sql"""
    return frozenset(norm_ddl(s) for s in split_statements(load_script("%s-v%d.sql" % (name, version))))


class PyExc(Exception):
    def __init__(self, cls, msg=""):
        self.cls, self.msg = cls, msg

    def __str__(self):
        return "%s(%s)" % (self.cls, self.msg)


SQLITE_ERRS = {"OperationalError": ["DatabaseError", "Error", "Exception"], "DatabaseError": ["Error", "Exception"],
               "IntegrityError": ["DatabaseError", "Error", "Exception"]}
BASES = dict(SQLITE_ERRS, DBError=["Exception"], DBDoesntExist=["Exception"], DBAlreadyExists=["Exception"],
             ValueError=["Exception"], TypeError=["Exception"], EnvironmentError=["Exception"], OSError=["Exception"],
             KeyError=["Exception"], AssertionError=["Exception"], Exception=[])


def matches(cls, handler):
    handler = handler.split(".")[-1]
    return cls == handler or handler in BASES.get(cls, [])


class Path:
    """symbolic file name"""

    def __init__(self, kind, base=None, extra=None):
        self.kind, self.base, self.extra = kind, base, extra

    def _k(self):
        return (self.kind, self.base._k() if isinstance(self.base, Path) else self.base, self.extra)

    def __eq__(self, o):
        return isinstance(o, Path) and self._k() == o._k()

    def __hash__(self):
        return hash(self._k())

    def __repr__(self):
        if self.kind == "main":
            return "P"
        return "%s(%r,%r)" % (self.kind, self.base, self.extra)


class Conn:
    def __init__(self, world, path):
        self.world, self.path = world, path
        self.in_tx = False
        self.work = None          # working copy inside a transaction
        self.closed = False
        self.row_factory = None


class Cursor:
    def __init__(self, rows):
        self.rows = rows

    def fetchone(self):
        return self.rows[0] if self.rows else None

    def fetchall(self):
        return list(self.rows)


class World:
    def __init__(self, fs):
        self.fs = dict(fs)
        self.trace = []           # (step description, snapshot of fs) after every writing step
        self.writes = []          # paths written, in order
        self.reads_only = True

    def get(self, p):
        return self.fs.get(p, ABSENT)

    def step(self, what, path=None, new=None):
        if path is not None:
            self.fs[path] = new
            self.writes.append((what, path))
        self.trace.append((what, dict(self.fs)))


class Interp:
    """interpreter for the Python subset database.py is written in"""

    def __init__(self, src, world):
        self.src = src
        self.w = world
        self.consts = src.module_constants("database")
        self.crash_after = None       # stop (simulating kill -9) after this many steps

    # ----- library contracts (A13, A6, A7) -------------------------------------------------
    def os_path_exists(self, p):
        return self.w.get(p).kind != "absent"

    def mkstemp(self, prefix, dir):
        name = Path("temp", (dir, prefix), fresh_token("suffix"))
        if self.w.get(name).kind != "absent":
            raise Unsupported("mkstemp returned an existing name")
        self.write("mkstemp", name, FState("junk", bytes_id=fresh_token("empty")), empty=True)
        return (("fd", name), name)

    def write(self, what, path, new, empty=False):
        self.w.step(what, path, new)
        if self.crash_after is not None and len(self.w.trace) >= self.crash_after:
            raise Crash()

    def connect(self, p):
        return Conn(self.w, p)

    def ensure_db(self, conn, for_write):
        """first access of the file by SQLite"""
        st = self.w.get(conn.path)
        if st.kind == "junk" and not getattr(st, "empty", False) and not st.bytes_id.startswith("empty"):
            raise PyExc("DatabaseError", "file is not a database")
        if st.kind in ("absent",) or st.bytes_id.startswith("empty"):
            if for_write or st.kind == "absent":
                # SQLite creates the (empty) database file
                new = FState("db", frozenset(), None, rows="R-empty")
                if st.kind == "absent":
                    self.write("sqlite creates %r" % conn.path, conn.path, new)
                else:
                    self.w.fs[conn.path] = new
                return new
            return FState("db", frozenset(), None, rows="R-empty")
        return st

    def current(self, conn):
        return conn.work if conn.in_tx else self.ensure_db(conn, False)

    def apply(self, conn, fn, what, autocommit):
        base = conn.work if conn.in_tx else self.ensure_db(conn, True)
        new = fn(base)
        if conn.in_tx and not autocommit:
            conn.work = new
        elif autocommit and not conn.in_tx:
            self.write(what, conn.path, new)
        else:
            conn.in_tx = True
            conn.work = new

    def sql(self, conn, text, params, autocommit=False):
        t = " ".join(text.replace("`", "").split())
        up = t.upper()
        if up.startswith("PRAGMA FOREIGN_KEYS"):
            return Cursor([])
        if up.startswith("PRAGMA FOREIGN_KEY_CHECK"):
            st = self.current(conn)
            return Cursor([] if st.fk_ok else [("violation",)])
        if up.startswith("SELECT VERSION FROM VERSION"):
            st = self.current(conn)
            if st.version is None:
                raise PyExc("OperationalError", "no such table: version")
            return Cursor([{"version": v} for v in st.version])
        if up.startswith("CREATE TABLE") or up.startswith("CREATE INDEX"):
            d = norm_ddl(text)
            name = re.match(r"create (?:table|index) (\w+)", d).group(1)

            def fn(st):
                existing = {re.match(r"create (?:table|index) (\w+)", x).group(1) for x in st.schema}
                if name in existing:
                    raise PyExc("OperationalError", "table %s already exists" % name)
                ver = st.version
                if d.startswith("create table version"):
                    ver = ()
                return FState("db", st.schema | {d}, ver, st.rows, fk_ok=st.fk_ok)
            self.apply(conn, fn, "DDL " + name, autocommit=True if autocommit else not conn.in_tx)
            return Cursor([])
        m = re.match(r"INSERT INTO VERSION \(VERSION\) VALUES \((\?|\d+)\)", up)
        if m:
            val = params[0] if m.group(1) == "?" else int(m.group(1))

            def fn(st):
                if st.version is None:
                    raise PyExc("OperationalError", "no such table: version")
                return FState("db", st.schema, st.version + (val,), st.rows, fk_ok=st.fk_ok)
            self.apply(conn, fn, "INSERT version", autocommit)
            return Cursor([])
        if up.startswith("DELETE FROM VERSION"):
            def fn(st):
                if st.version is None:
                    raise PyExc("OperationalError", "no such table: version")
                return FState("db", st.schema, (), st.rows, fk_ok=st.fk_ok)
            self.apply(conn, fn, "DELETE version", autocommit)
            return Cursor([])
        if up in ("BEGIN", "BEGIN TRANSACTION"):
            if conn.in_tx:
                raise PyExc("OperationalError", "cannot start a transaction within a transaction")
            conn.in_tx = True
            conn.work = self.ensure_db(conn, True)
            return Cursor([])
        if up in ("COMMIT", "END", "END TRANSACTION"):
            self.commit(conn)
            return Cursor([])
        # any other statement that names a pre-existing data table: the user rows are no longer intact
        if re.match(r"(DROP|ALTER|DELETE|UPDATE|INSERT|REPLACE)\b", up):
            def fn(st):
                return FState("db", st.schema, st.version, fresh_token("R-modified"), fk_ok=st.fk_ok)
            self.apply(conn, fn, "DML/DDL on data: " + t[:40], autocommit)
            return Cursor([])
        raise Unsupported("SQL statement in database.py / scripts: %r" % t)

    def commit(self, conn):
        if conn.in_tx:
            conn.in_tx = False
            new, conn.work = conn.work, None
            self.write("commit %r" % conn.path, conn.path, new)

    def executescript(self, conn, script):
        self.commit(conn)            # A7: executescript first commits a pending transaction
        for st in split_statements(script):
            self.sql(conn, st, (), autocommit=not conn.in_tx)

    # ----- the interpreter ---------------------------------------------------------------------
    def call_function(self, name, args):
        fd = self.src.func("database." + name)
        env = dict(zip([a.arg for a in fd.args.args], args))
        try:
            self.block(fd.body, env)
        except Return as r:
            return r.v
        return None

    def block(self, stmts, env):
        for s in stmts:
            self.stmt(s, env)

    def stmt(self, s, env):
        if isinstance(s, ast.Expr):
            if not isinstance(s.value, ast.Constant):
                self.ev(s.value, env)
        elif isinstance(s, ast.Assign):
            v = self.ev(s.value, env)
            t = s.targets[0]
            if isinstance(t, ast.Name):
                env[t.id] = v
            elif isinstance(t, ast.Tuple):
                for tt, vv in zip(t.elts, v):
                    env[tt.id] = vv
            elif isinstance(t, ast.Attribute):
                setattr(self.ev(t.value, env), t.attr, v)
            else:
                raise Unsupported("assignment target in database.py at %d" % s.lineno)
        elif isinstance(s, ast.Return):
            raise Return(self.ev(s.value, env) if s.value else None)
        elif isinstance(s, ast.If):
            self.block(s.body if self.ev(s.test, env) else s.orelse, env)
        elif isinstance(s, ast.While):
            n = 0
            while self.ev(s.test, env):
                n += 1
                if n > 20:
                    raise Unsupported("upgrade loop does not terminate within 20 iterations")
                self.block(s.body, env)
        elif isinstance(s, ast.Raise):
            raise self.ev(s.exc, env)
        elif isinstance(s, ast.Assert):
            if not self.ev(s.test, env):
                raise PyExc("AssertionError")
        elif isinstance(s, ast.Try):
            try:
                self.block(s.body, env)
            except PyExc as e:
                for h in s.handlers:
                    names = [ast.unparse(x) for x in (h.type.elts if isinstance(h.type, ast.Tuple) else [h.type])]
                    if any(matches(e.cls, n) for n in names):
                        if h.name:
                            env[h.name] = e
                        self.block(h.body, env)
                        return
                raise
        elif isinstance(s, ast.Pass):
            pass
        elif isinstance(s, ast.AugAssign) and isinstance(s.target, ast.Name):
            env[s.target.id] = self.ev(ast.BinOp(left=ast.Name(id=s.target.id, ctx=ast.Load(), lineno=s.lineno, col_offset=0),
                                                 op=s.op, right=s.value, lineno=s.lineno, col_offset=0), env)
        else:
            raise Unsupported("statement %s in database.py at %d" % (type(s).__name__, s.lineno))

    def ev(self, e, env):
        if isinstance(e, ast.Constant):
            return e.value
        if isinstance(e, ast.Name):
            if e.id in env:
                return env[e.id]
            if e.id in self.consts:
                return self.consts[e.id]
            if ("database." + e.id) in self.src.index:
                return ("func", e.id)
            raise Unsupported("name %s in database.py at %d" % (e.id, e.lineno))
        if isinstance(e, ast.Tuple):
            return tuple(self.ev(x, env) for x in e.elts)
        if isinstance(e, ast.Compare):
            a = self.ev(e.left, env)
            b = self.ev(e.comparators[0], env)
            op = e.ops[0]
            if isinstance(op, ast.Eq):
                return a == b
            if isinstance(op, ast.NotEq):
                return a != b
            if isinstance(op, ast.Is):
                return a is b
            if isinstance(op, ast.IsNot):
                return a is not b
            if isinstance(a, (int, float)) and isinstance(b, (int, float)):
                return {ast.Lt: a < b, ast.LtE: a <= b, ast.Gt: a > b, ast.GtE: a >= b}[type(op)]
            # comparing a non-number (e.g. None from an empty version table): Python 3 raises TypeError
            raise PyExc("TypeError", "'<' not supported between %r and %r" % (a, b))
        if isinstance(e, ast.BoolOp):
            # short-circuit, and the value of the deciding operand, as in Python
            v = None
            for x in e.values:
                v = self.ev(x, env)
                if (not v) if isinstance(e.op, ast.And) else bool(v):
                    return v
            return v
        if isinstance(e, ast.UnaryOp) and isinstance(e.op, ast.Not):
            return not self.ev(e.operand, env)
        if isinstance(e, ast.BinOp):
            a, b = self.ev(e.left, env), self.ev(e.right, env)
            if isinstance(e.op, ast.Add):
                if isinstance(a, Path) or isinstance(b, Path):
                    return Path("concat", a, b)
                return a + b
            if isinstance(e.op, ast.Mod):
                if isinstance(a, str) and isinstance(b, tuple) and any(isinstance(x, Path) for x in b):
                    return Path("fmt", b[0], (a,) + tuple(b[1:]))
                if isinstance(a, str):
                    try:
                        return a % b
                    except TypeError:
                        return "<formatted>"
            raise Unsupported("binary operation in database.py at %d" % e.lineno)
        if isinstance(e, ast.Subscript):
            v = self.ev(e.value, env)
            k = self.ev(e.slice, env)
            if v is None:
                raise PyExc("TypeError", "'NoneType' object is not subscriptable")
            return v[k]
        if isinstance(e, ast.Attribute):
            return ("attr", self.ev(e.value, env) if not isinstance(e.value, ast.Name) or e.value.id in env else e.value.id, e.attr)
        if isinstance(e, ast.Call):
            return self.call(e, env)
        raise Unsupported("expression %s in database.py at %d" % (type(e).__name__, e.lineno))

    def call(self, e, env):
        fn = ast.unparse(e.func)
        if fn.startswith("log."):
            return None
        args = [self.ev(a, env) for a in e.args]
        kw = {k.arg: self.ev(k.value, env) for k in e.keywords}
        if fn == "os.path.exists":
            return self.os_path_exists(args[0])
        if fn == "os.path.getsize":
            st = self.w.get(args[0])
            if st.kind == "absent":
                raise PyExc("FileNotFoundError")
            # an empty file is the class 'database without any table'; everything else has bytes
            return 0 if (st.kind == "db" and not st.schema and st.version is None) or getattr(st, "empty", False) else 1
        if fn == "os.path.basename":
            return Path("basename", args[0])
        if fn == "os.path.dirname":
            return Path("dirname", args[0])
        if fn == "os.path.join":
            return Path("join", args[0], tuple(args[1:]))
        if fn == "tempfile.mkstemp":
            return self.mkstemp(kw.get("prefix"), kw.get("dir"))
        if fn == "os.close":
            return None
        if fn == "os.rename":
            src, dst = args
            st = self.w.get(src)
            fs = self.w.fs
            fs[src] = ABSENT
            self.write("rename %r -> %r" % (src, dst), dst, st)
            return None
        if fn == "shutil.copy":
            src, dst = args
            st = self.w.get(src)
            cp = FState(st.kind, st.schema, st.version, st.rows, bytes_id=st.bytes_id, fk_ok=st.fk_ok)
            self.write("copy %r -> %r" % (src, dst), dst, cp)
            return None
        if fn == "sqlite3.connect":
            return self.connect(args[0])
        if fn in ("get_schema", "get_upgrader"):
            name, ver = args
            f = ("%s-v%d.sql" % (name, ver)) if fn == "get_schema" else ("upgrade-%s-to-v%d.sql" % (name, ver))
            p = os.path.join(PKG, "db-schemas", f)
            if not os.path.exists(p):
                if fn == "get_upgrader":
                    raise PyExc("ValueError", "no upgrader for %d" % ver)
                raise PyExc("EnvironmentError", f)
            return open(p).read()
        if fn in ("DBError", "DBDoesntExist", "DBAlreadyExists", "ValueError"):
            return PyExc(fn, str(args[0]) if args else "")
        if fn.startswith("_") or fn in ("create_or_upgrade_channel_db", "create_or_upgrade_usage_db"):
            if ("database." + fn) in self.src.index:
                return self.call_function(fn, args)
        if isinstance(e.func, ast.Attribute):
            recv = self.ev(e.func.value, env)
            m = e.func.attr
            if isinstance(recv, Conn):
                if m == "execute":
                    return self.sql(recv, args[0], args[1] if len(args) > 1 else ())
                if m == "executescript":
                    return self.executescript(recv, args[0])
                if m == "commit":
                    return self.commit(recv)
                if m == "close":
                    recv.in_tx, recv.work, recv.closed = False, None, True
                    return None
            if isinstance(recv, Cursor):
                return getattr(recv, m)()
        raise Unsupported("call %s in database.py at %d" % (fn, e.lineno))


class Return(Exception):
    def __init__(self, v):
        self.v = v


class Crash(Exception):
    pass


def run(src, func, args, fs, crash_after=None):
    """-> (outcome, world); outcome = ('return', v) | ('raise', PyExc) | ('crash',)"""
    w = World(fs)
    it = Interp(src, w)
    it.crash_after = crash_after
    try:
        v = it.call_function(func, args)
        return ("return", v), w
    except PyExc as e:
        return ("raise", e), w
    except Crash:
        return ("crash",), w
