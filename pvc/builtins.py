"""Assumed contracts of builtins / stdlib (A3) and the sqlite3 statement
semantics (A6, A7; DESIGN 4.2, 4.3)."""
import z3
from .zs import *  # noqa
from .values import *  # noqa
from .state import Tbl, schema, parse_sql, where_pred
from . import sqlx
from .contract import symbolic_rowlist
from . import heap as H


def fk_children(key):
    """(child table key, child column) referencing `key`'s columns -> list of (childkey, childcol, parentcol)"""
    db, name = key.split(".")
    out = []
    for k, sch in schema().items():
        if sch.db != db:
            continue
        for c in sch.cols:
            if c.ref and c.ref[0] == name:
                out.append((k, c.name, c.ref[1]))
    return out


def call_bound(ex, recv, name, args, kwargs, e):
    if isinstance(recv, VOpt):
        ex.require(Not(recv.is_none), "AttributeError", e)
        recv = recv.val
    if isinstance(recv, VConn):
        if name == "execute":
            return sql_execute(ex, recv, args, e)
        if name == "commit":
            ex.st.in_tx[recv.which] = BoolVal(False)
            if recv.which == "ch":
                # C10: the state a kill -9 right after this commit leaves on disk (A8) must be Recoverable
                names = getattr(ex.con, "commit_invariants", None)
                if names:
                    from contracts import invariants as INV
                    for n in names:
                        ex.oblige("commit@%d.recoverable.%s" % (e.lineno, n), INV.NAMED[n](ex.st), ["C10"],
                                  e.lineno, "commit")
            return VConst(None)
        raise Unsupported("connection method %s at %d" % (name, e.lineno))
    if isinstance(recv, VCursor):
        if recv.kind != "select":
            raise Unsupported("fetch on non-select at %d" % e.lineno)
        if name == "fetchone":
            return fetchone(ex, recv, e)
        if name == "fetchall":
            return fetchall(ex, recv, e)
        raise Unsupported("cursor method %s" % name)
    if isinstance(recv, VModule):
        return call_module(ex, recv.name, name, args, kwargs, e)
    if isinstance(recv, VConst) and isinstance(recv.py, str):
        if all(isinstance(a, VConst) for a in args) and not kwargs and name in ("format", "upper", "lower", "strip"):
            return VConst(getattr(recv.py, name)(*[a.py for a in args]))
        if name == "format":
            return VZ(fresh("formatted", Str), "str")
        raise Unsupported("str.%s at %d" % (name, e.lineno))
    if isinstance(recv, VZ) and recv.kind == "str" and not kwargs:
        if name in ("strip", "rstrip", "lstrip", "lower", "upper", "title", "casefold", "replace", "encode", "decode"):
            # some string determined by the receiver and the (constant) arguments: an uninterpreted function
            key = name + "".join("_%s" % abs(hash(repr(a.py))) if isinstance(a, VConst) else "_sym" for a in args)
            if all(isinstance(a, VConst) for a in args):
                return VZ(Function("str_" + key, Str, Str)(recv.t), "str")
            return VZ(fresh("str_" + name, Str), "str")
        if name in ("isdigit", "isalpha", "isalnum", "isnumeric", "isdecimal", "isspace", "islower", "isupper"):
            p_ = Function("str_" + name, Str, BOOL)
            if name in ("isdigit", "isnumeric", "isdecimal", "isalnum"):
                ex.assume(FA([INT], lambda i_: Implies(i_ >= 0, p_(dec(i_))), pats=lambda i_: [dec(i_)]))
            ex.assume(Not(p_(EMPTY)))
            return VZ(p_(recv.t), "bool")
        if name in ("startswith", "endswith") and len(args) == 1 and kind_of(args[0]) == "str":
            a = ex.scalar(args[0], "str", e)
            return VZ(Function("str_" + name, Str, Str, BOOL)(recv.t, a), "bool")
    if isinstance(recv, VUnknownColl) and name in ("add", "append", "discard", "update", "extend", "clear"):
        return VConst(None)
    if isinstance(recv, VSet) and name == "add":
        raise Unsupported("set.add outside an accumulation loop at %d" % e.lineno)
    if isinstance(recv, VRow) and name == "get":
        key = args[0]
        if recv.view is not None:
            if key.py not in recv.view:
                return args[1] if len(args) > 1 else VConst(None)
            t_, r_, c_ = recv.view[key.py]
            return t_.value(c_, r_)
        if not recv.tbl.sch.has(key.py):
            return args[1] if len(args) > 1 else VConst(None)
        return recv.tbl.value(key.py, recv.rid)
    if isinstance(recv, VMsg) and name == "get":
        key = args[0].py
        dflt = args[1] if len(args) > 1 else VConst(None)
        if ex.branch(recv.has(key), "msg.get(%s)" % key):
            return recv.val(key)
        return dflt
    if isinstance(recv, VDict):
        m = ex.st.heap["%s.%s" % (recv.cls, recv.field)]
        if name == "values":
            return VCursor("dictvalues", d=recv)
        if name == "items":
            return VCursor("dictitems", d=recv)
        if name == "get":
            kt = ex.scalar(args[0], "str", e)
            if len(args) > 1 and not (isinstance(args[1], VConst) and args[1].py is None):
                raise Unsupported("dict.get with a default at %d" % e.lineno)
            return VRef(m[recv.obj][kt], recv.valcls, nullable=True)
        if name == "keys":
            return dict_keys(ex, recv)
        if name == "pop":
            kt = ex.scalar(args[0], "str", e)
            if len(args) < 2:
                ex.require(m[recv.obj][kt] != 0, "KeyError", e)
            old = m[recv.obj][kt]
            ex.st.heap["%s.%s" % (recv.cls, recv.field)] = Store(m, recv.obj, Store(m[recv.obj], kt, 0))
            return VRef(old, recv.valcls, nullable=True)
        raise Unsupported("dict method %s at %d" % (name, e.lineno))
    if isinstance(recv, VListeners):
        ls = ex.st.heap["Mailbox._listeners"]
        if name == "values":
            return VCursor("listenervalues", obj=recv.obj)
        if name == "pop":
            h = args[0]
            if len(args) < 2:
                ex.require(ls[recv.obj][h.t], "KeyError", e)
            ex.st.heap["Mailbox._listeners"] = Store(ls, recv.obj, Store(ls[recv.obj], h.t, False))
            return VConst(None)
        raise Unsupported("listeners method %s" % name)
    if isinstance(recv, VMap) and name == "get":
        key = args[0]
        dflt = args[1] if len(args) > 1 else VConst(None)
        if isinstance(key, VConst):
            return recv.d.get(key.py, dflt)
        k = kind_of(key)
        vals = list(recv.d.values()) + [dflt]
        if k in ("int", "str") and all(isinstance(v, VConst) and isinstance(v.py, str) for v in vals) \
                and all(isinstance(kk, int if k == "int" else str) for kk in recv.d):
            kt = ex.scalar(key, k, e)
            t = S(dflt.py)
            for kk, v in recv.d.items():
                t = If(kt == (IntVal(kk) if k == "int" else S(kk)), S(v.py), t)
            return VZ(t, "str")
        raise Unsupported("dict literal .get with a symbolic key at %d" % e.lineno)
    raise Unsupported("method %s on %r at %d" % (name, recv, e.lineno))


def call_module(ex, mod, name, args, kwargs, e):
    if mod == "time" and name == "time":
        return ex.clock()
    if mod == "random" and name == "choice":
        coll = args[0]
        if isinstance(coll, VBag):
            ex.require(coll.nonempty, "IndexError", e)
            x = fresh("choice", sort_of(coll.kind))
            ex.assume(coll.contains(x))
            ex.oracles.append(("random.choice", x))
            return VZ(x, coll.kind)
        raise Unsupported("random.choice of %r" % (coll,))
    if mod == "random" and name == "randrange":
        a, b = ex.scalar(args[0], "int", e), ex.scalar(args[1], "int", e)
        x = fresh("randrange", INT)
        ex.assume(And(a <= x, x < b))
        ex.oracles.append(("random.randrange", x))
        return VZ(x, "int")
    raise Unsupported("%s.%s at %d" % (mod, name, e.lineno))


def call_func(ex, name, args, kwargs, e):
    if name == "generate_mailbox_id":
        g = fresh("mailbox_id", Str)
        # A14: a fresh id is not, and never was, the id of any mailbox
        st = ex.st
        ex.assume(g != EMPTY)
        ex.assume(st.t("ch.mailboxes").none(lambda r: r.id == g))
        ex.assume(st.t("ch.mailbox_sides").none(lambda r: r.mailbox_id == g))
        ex.assume(st.t("ch.messages").none(lambda r: r.mailbox_id == g))
        ex.assume(st.t("ch.nameplates").none(lambda r: r.mailbox_id == g))
        ex.oracles.append(("generate_mailbox_id", g))
        return VZ(g, "str")
    if name == "bytes_to_dict":
        if isinstance(args[0], VMsg):
            return args[0]          # A9: the payload is the UTF-8 JSON text of an object
        raise Unsupported("bytes_to_dict of %r" % (args[0],))
    if name == "dict_to_bytes":
        from . import callbacks
        if isinstance(args[0], callbacks.VFrameMap):
            return callbacks.VFrame(args[0].t)
        return callbacks.dict_to_bytes(ex, args[0], e)
    if name == "type":
        return VConst(("type", kind_of(args[0])))
    if name == "len":
        v = args[0]
        if isinstance(v, (VRowList, VList)):
            return VZ(v.n, "int")
        if isinstance(v, VSet):
            if v.mem is None:
                return VConst(0)
            n = Function("setcard_" + v.kind, ArraySort(sort_of(v.kind), BOOL), INT)(v.mem)
            ex.assume(n >= 0)      # |set|: uninterpreted, non-negative (A3)
            ex.assume((n == 0) == Not(EX([sort_of(v.kind)], lambda y: v.mem[y])))
            return VZ(n, "int")
        if isinstance(v, VDict):
            m = ex.st.heap["%s.%s" % (v.cls, v.field)][v.obj]
            n = Function("dictcard", ArraySort(Str, INT), INT)(m)
            ex.assume(n >= 0)          # number of keys: uninterpreted, non-negative (A3)
            return VZ(n, "int")
        if isinstance(v, VListeners):
            from .symex import card
            return VZ(card(ex.st.heap["Mailbox._listeners"][v.obj]), "int")
        if isinstance(v, VZ) and v.kind == "str":
            n = Function("str_len", Str, INT)(v.t)
            ex.assume(n >= 0)
            ex.assume((n == 0) == (v.t == EMPTY))
            return VZ(n, "int")
        if isinstance(v, VConst) and isinstance(v.py, (str, tuple, list)):
            return VConst(len(v.py))
        if isinstance(v, VBag):
            n = bag_count(ex, v)
            return VZ(n, "int")
        raise Unsupported("len of %r at %d" % (v, e.lineno))
    if name == "bool":
        return VZ(ex.truthy(args[0]), "bool")
    if name == "range":
        if all(isinstance(a, VConst) for a in args):
            return VConst(range(*[a.py for a in args]))
        raise Unsupported("symbolic range at %d" % e.lineno)
    if name == "set":
        if not args:
            return VAcc(VSet(None, None))   # empty accumulator, kind fixed by first add
        v = args[0]
        if isinstance(v, VSet):
            return v
        if isinstance(v, VDict):
            return dict_keys(ex, v)
        if isinstance(v, VList):
            el = v.at(fresh("probe", INT))
            k = kind_of(el)
            mem = fresh("set", ArraySort(sort_of(k), BOOL))
            ex.assume(FA([sort_of(k)], lambda y: mem[y] == EX([INT], lambda i: And(0 <= i, i < v.n,
                                                                                    to_term(v.at(i), k) == y)),
                         pats=lambda y: [mem[y]]))
            return VSet(k, mem)
        raise Unsupported("set() of %r at %d" % (v, e.lineno))
    if name == "list":
        v = args[0]
        if isinstance(v, VSet):
            if v.mem is None:
                return VList(IntVal(0), lambda i: VConst(None))
            return VBag(v.kind, lambda y: v.mem[y], EX([sort_of(v.kind)], lambda y: v.mem[y]))
        if isinstance(v, (VList, VBag, VRowList)):
            return v
        if isinstance(v, VCursor) and v.kind == "select":
            return fetchall(ex, v, e)         # list(cursor) drains it
        raise Unsupported("list() of %r" % (v,))
    if name == "dict":
        if not args and not kwargs:
            return VMap({})
        raise Unsupported("dict(...) with arguments")
    if name == "all":
        v = args[0]
        if isinstance(v, VList):
            return VZ(FA([INT], lambda i: Implies(And(0 <= i, i < v.n), ex.truthy(v.at(i)))), "bool")
        raise Unsupported("all of %r" % (v,))
    if name == "any":
        v = args[0]
        if isinstance(v, VList):
            return VZ(EX([INT], lambda i: And(0 <= i, i < v.n, ex.truthy(v.at(i)))), "bool")
        if isinstance(v, VBag):
            raise Unsupported("any() of filtered comprehension")
        raise Unsupported("any of %r" % (v,))
    if name == "sorted":
        return do_sorted(ex, args[0], e)
    if name in ("min", "max"):
        if len(args) == 1 and isinstance(args[0], (VList, VRowList)) and not kwargs:
            v = args[0]
            ex.require(v.n > 0, "ValueError", e)
            k = kind_of(v.at(fresh("probe", INT)))
            if k not in ("int", "real"):
                raise Unsupported("%s of non-numbers at %d" % (name, e.lineno))
            m = fresh(name, sort_of(k))
            w = fresh(name + ".at", INT)
            ex.assume(And(0 <= w, w < v.n, m == to_term(v.at(w), k)))
            ex.assume(FA([INT], lambda j: Implies(And(0 <= j, j < v.n),
                                                  (m <= to_term(v.at(j), k)) if name == "min" else (m >= to_term(v.at(j), k)))))
            # ground instances for the first two elements (what the code base looks at)
            for j in (0, 1):
                ex.assume(Implies(v.n > j, (m <= to_term(v.at(IntVal(j)), k)) if name == "min" else (m >= to_term(v.at(IntVal(j)), k))))
            return VZ(m, k)
        if len(args) >= 2 and not kwargs and all(kind_of(a) in ("int", "real") for a in args):
            k = "int" if all(kind_of(a) == "int" for a in args) else "real"
            ts = [ex.scalar(a, k, e) for a in args]
            m = ts[0]
            for t in ts[1:]:
                m = If(t < m, t, m) if name == "min" else If(t > m, t, m)
            return VZ(m, k)
        raise Unsupported("%s(...) at %d" % (name, e.lineno))
    if name == "round" and len(args) == 1 and not kwargs and kind_of(args[0]) in ("int", "real"):
        if kind_of(args[0]) == "int":
            return args[0]
        x = ex.scalar(args[0], "real", e)
        r = fresh("round", INT)        # nearest integer, ties to even (Python 3)
        rr = z3.ToReal(r)
        ex.assume(And(x - RealVal("1/2") <= rr, rr <= x + RealVal("1/2")))
        ex.assume(Implies(Or(x - rr == RealVal("1/2"), rr - x == RealVal("1/2")), r % 2 == 0))
        return VZ(r, "int")
    if name == "abs" and len(args) == 1 and kind_of(args[0]) in ("int", "real"):
        k = kind_of(args[0])
        x = ex.scalar(args[0], k, e)
        return VZ(If(x >= 0, x, -x), k)
    if name == "tuple":
        if args and isinstance(args[0], VTuple):
            return args[0]
        raise Unsupported("tuple() at %d" % e.lineno)
    if name == "sum":
        return do_sum(ex, args[0], e)
    if name == "str":
        v = args[0]
        if isinstance(v, VOpaque):
            return VOpaque(Function("py_str", Json, Json)(v.t))
        if isinstance(v, VZ) and v.kind == "str":
            return v
        if isinstance(v, VConst):
            return VConst(str(v.py))
        if isinstance(v, VZ) and v.kind == "int":
            return VZ(dec(v.t), "str")
        if isinstance(v, (VZ, VOpt)):
            return VZ(fresh("str_of", Str), "str")      # repr of a float / optional: some string
        raise Unsupported("str() of %r" % (v,))
    if name == "int":
        v = args[0] if args else VConst(0)
        if isinstance(v, VOpt):
            ex.require(Not(v.is_none), "TypeError", e)
            v = v.val
        k = kind_of(v)
        if k in ("int", "bool"):
            return VZ(ex.scalar(v, "int", e), "int")
        if k == "real":
            x = v.t                       # truncation towards zero
            return VZ(If(x >= 0, z3.ToInt(x), -z3.ToInt(-x)), "int")
        if k == "str":
            # int("7") == 7; which other strings int() accepts ("+7", " 7 ", "0_7", ...) is left open, except that a
            # string it accepts denotes the integer it returns: the decimal rendering of that integer parses back to it
            ex.assume(FA([INT], lambda i: And(int_parses(dec(i)), int_of(dec(i)) == i), pats=lambda i: [dec(i)]))
            ok = int_parses(v.t)
            ex.require(ok, "ValueError", e)
            return VZ(int_of(v.t), "int")
        raise Unsupported("int() of %s at %d" % (k, e.lineno))
    if name == "float":
        v = args[0]
        if kind_of(v) in ("int", "real", "bool"):
            return VZ(ex.scalar(v, "real", e), "real")
        raise Unsupported("float() at %d" % e.lineno)
    raise Unsupported("builtin %s at %d" % (name, e.lineno))


int_parses = Function("int_parses", Str, BOOL)      # int(s) does not raise
int_of = Function("int_of", Str, INT)                # its value
sumfold = Function("sumfold", ArraySort(INT, INT), INT, INT)  # sum of f[0..n)


dictsum = Function("dictsum", ArraySort(INT, INT), ArraySort(Str, INT), INT)   # sum of G[d[k]] over the keys of d (A3)


def bag_count(ex, v):
    """number of elements of a filtered comprehension: only 'zero iff nothing passes the filter' and the bounds are known"""
    n = fresh("count", INT)
    ex.assume(n >= 0)
    ex.assume((n > 0) == v.nonempty)
    if getattr(v, "bound", None) is not None:
        ex.assume(n <= v.bound)
    return n


def do_sum(ex, v, e):
    if isinstance(v, VBag) and getattr(v, "const_elt", None) is not None and isinstance(v.const_elt, int) \
            and not isinstance(v.const_elt, bool):
        n = bag_count(ex, v)
        return VZ(n * v.const_elt, "int")
    if isinstance(v, VList) and hasattr(v, "dict_src"):
        m, G = v.dict_src
        return VZ(dictsum(G, m), "int")
    if isinstance(v, VList):
        arr = fresh("sumterm", ArraySort(INT, INT))
        ex.assume(FA([INT], lambda i: Implies(And(0 <= i, i < v.n), arr[i] == to_term(v.at(i), "int")),
                     pats=lambda i: [arr[i]]))
        ex.sum_witness = (arr, v)
        return VZ(sumfold(arr, v.n), "int")
    raise Unsupported("sum of %r" % (v,))


def dict_keys(ex, d):
    """the key set of a registry dict (a snapshot: Python would raise if the dict changed during iteration)"""
    m = ex.st.heap["%s.%s" % (d.cls, d.field)][d.obj]
    mem = fresh("keys", ArraySort(Str, BOOL))
    ex.assume(FA([Str], lambda y: mem[y] == (m[y] != 0), pats=lambda y: [mem[y]]))
    return VSet("str", mem)


def do_sorted(ex, v, e):
    if isinstance(v, VDict):
        v = dict_keys(ex, v)
    if isinstance(v, VSet):
        if v.mem is None:
            return VList(IntVal(0), lambda i: VConst(None))
        seq = ex.as_sequence(v, e)
        if v.kind == "str":
            ex.assume(FA([INT, INT], lambda i, j: Implies(And(0 <= i, i < j, j < seq.n),
                                                          str_le(to_term(seq.at(i), "str"), to_term(seq.at(j), "str")))))
        return seq
    if isinstance(v, VList):
        el = v.at(fresh("probe", INT))
        if isinstance(el, VOpt):
            raise Unsupported("sorted of optional values at %d" % e.lineno)
        k = kind_of(el)
        if k == "none" or v.n.eq(IntVal(0)):
            return v
        if k not in ("real", "int"):
            raise Unsupported("sorted of %s list" % k)
        out = fresh("sorted", ArraySort(INT, sort_of(k)))
        perm = fresh("perm", ArraySort(INT, INT))
        inv = fresh("perm.inv", ArraySort(INT, INT))
        n = v.n
        el_at = lambda j: to_term(v.at(j), k)
        ex.assume(FA([INT], lambda i: Implies(And(0 <= i, i < n),
                                              And(0 <= perm[i], perm[i] < n, inv[perm[i]] == i,
                                                  out[i] == el_at(perm[i]))),
                     pats=lambda i: [perm[i], out[i]]))
        ex.assume(FA([INT], lambda j: Implies(And(0 <= j, j < n),
                                              And(0 <= inv[j], inv[j] < n, perm[inv[j]] == j)),
                     pats=lambda j: [inv[j]]))
        ex.assume(FA([INT, INT], lambda i, j: Implies(And(0 <= i, i < j, j < n), out[i] <= out[j])))
        # consequences of "ordered permutation" stated for the solver's benefit; they are
        # proved once from the three axioms above by the lemma obligations A3.sorted.*
        ex.assume(Implies(n > 0, And(0 <= perm[0], perm[0] < n, out[0] == el_at(perm[0]))))
        ex.assume(Implies(n > 1, And(0 <= perm[1], perm[1] < n, out[1] == el_at(perm[1]), perm[1] != perm[0])))
        ex.assume(FA([INT], lambda j: Implies(And(0 <= j, j < n), out[0] <= el_at(j))))
        ex.assume(FA([INT], lambda j: Implies(And(0 <= j, j < n, j != perm[0]), out[1] <= el_at(j))))
        res = VList(n, lambda i: VZ(out[i], k))
        res.sorted_of = (v, perm, inv)
        return res
    raise Unsupported("sorted of %r at %d" % (v, e.lineno))


# ---------------------------------------------------------------------------
# sqlite3
# ---------------------------------------------------------------------------

def sql_execute(ex, conn, args, e):
    if not (args and isinstance(args[0], VConst) and isinstance(args[0].py, str)):
        raise Unsupported("non-constant SQL at %d" % e.lineno)
    try:
        stt = parse_sql(args[0].py)
    except Unsupported:
        stt = sqlx.parse(args[0].py)      # beyond the legacy forms: general WHERE expressions, column lists, PK joins
    params = []
    if len(args) > 1:
        if not isinstance(args[1], VTuple):
            raise Unsupported("SQL parameters must be a tuple at %d" % e.lineno)
        params = args[1].items
    if len(params) != stt.nparams:
        ex.require(BoolVal(False), "ProgrammingError", e)
        raise Unsupported("SQL parameter count at %d" % e.lineno)
    if getattr(stt, "general", False):
        return sql_execute_general(ex, conn, stt, params, e)
    key = "%s.%s" % (conn.which, stt.table)
    if key not in ex.st.tabs:
        ex.require(BoolVal(False), "OperationalError", e)
        raise Unsupported("no table %s at %d" % (key, e.lineno))
    tbl = ex.st.t(key)
    for c in (getattr(stt, "where", []) + getattr(stt, "cols", []) + getattr(stt, "sets", [])
              + ([stt.order] if getattr(stt, "order", None) else [])
              + ([stt.distinct] if getattr(stt, "distinct", None) else [])):
        if not tbl.sch.has(c):
            ex.require(BoolVal(False), "OperationalError", e)
            raise Unsupported("no column %s.%s at %d" % (key, c, e.lineno))
    ex.stmts.append((e.lineno, conn.which, stt)) if hasattr(ex, "stmts") else None
    if stt.kind == "select":
        pred = where_pred(tbl, stt.where, params)
        return VCursor("select", tbl=tbl, pred=pred, stt=stt)
    ex.st.in_tx[conn.which] = BoolVal(True)
    if stt.kind == "insert":
        return sql_insert(ex, key, tbl, stt, params, e)
    if stt.kind == "update":
        return sql_update(ex, key, tbl, stt, params, e)
    if stt.kind == "delete":
        return sql_delete(ex, key, tbl, stt, params, e)
    raise Unsupported(stt.kind)


def sql_execute_general(ex, conn, stt, params, e):
    ex.stmts.append((e.lineno, conn.which, stt)) if hasattr(ex, "stmts") else None
    if stt.kind == "select":
        return sqlx.prepare_select(ex, conn, stt, params, e)
    key, tbl = sqlx.table(ex, conn.which, stt.table, e)
    pred = sqlx.where_general(ex, conn, stt, tbl, params, e)
    ex.st.in_tx[conn.which] = BoolVal(True)
    if stt.kind == "delete":
        return sql_delete(ex, key, tbl, stt, params, e, pred=pred)
    if stt.kind == "update":
        names, vals = [], []
        for c, v in stt.sets:
            if not tbl.sch.has(c):
                ex.require(BoolVal(False), "OperationalError", e)
                raise Unsupported("no column %s.%s at %d" % (key, c, e.lineno))
            names.append(c)
            if v[0] == "param":
                vals.append(params[v[1]])
            elif v[0] == "null":
                vals.append(VConst(None))
            elif v[0] in ("num", "str"):
                vals.append(VZ(sqlx.literal(v, tbl.sch.col(c).kind), tbl.sch.col(c).kind))
            else:
                raise Unsupported("UPDATE SET from a column at %d" % e.lineno)
        stt.sets = names
        return sql_update(ex, key, tbl, stt, vals, e, pred=pred)
    raise Unsupported(stt.kind)


def fetchone(ex, cur, e):
    tbl, pred = cur.tbl, cur.pred
    r0 = fresh("row", INT)
    some = EX([INT], lambda r: And(tbl.live[r], pred(r)))
    ex.assume(Implies(some, And(tbl.live[r0], pred(r0))))
    if cur.stt.distinct or getattr(cur, "distinct_key", None):
        raise Unsupported("fetchone on DISTINCT")
    view = getattr(cur, "view", None)
    return VOpt(Not(And(tbl.live[r0], pred(r0))), VRow(tbl, r0, view(r0) if view else None))


def fetchall(ex, cur, e):
    tbl, pred = cur.tbl, cur.pred
    if cur.stt.distinct:
        c = cur.stt.distinct
        col = tbl.sch.col(c)
        mem = fresh("distinct", ArraySort(sort_of(col.kind), BOOL))
        ex.assume(FA([sort_of(col.kind)], lambda y: mem[y] == EX([INT], lambda r: And(tbl.live[r], pred(r),
                                                                                    tbl.get(c, r) == y)),
                     pats=lambda y: [mem[y]]))
        v = VSet(col.kind, mem)
        seq = ex.as_sequence(v, e)
        # rows of a DISTINCT result are dicts {c: value}
        lst = VList(seq.n, lambda i: VMap({c: seq.at(i)}))
        lst.distinct_set = v
        return lst
    if getattr(cur, "distinct_key", None):
        k = cur.distinct_key
        t0, _, c0 = cur.view(Const("r!probe", INT))[k]
        kind = t0.sch.col(c0).kind

        def val(r):
            t_, r_, c_ = cur.view(r)[k]
            return t_.get(c_, r_)
        mem = fresh("distinct", ArraySort(sort_of(kind), BOOL))
        ex.assume(FA([sort_of(kind)], lambda y: mem[y] == EX([INT], lambda r: And(tbl.live[r], pred(r), val(r) == y)),
                     pats=lambda y: [mem[y]]))
        v = VSet(kind, mem)
        seq = ex.as_sequence(v, e)
        lst = VList(seq.n, lambda i: VMap({k: seq.at(i)}))
        lst.distinct_set = v
        return lst
    general = getattr(cur.stt, "general", False)
    v, facts = symbolic_rowlist(tbl, pred, "rows", cur.stt.order_col if general else cur.stt.order)
    v.viewfn = getattr(cur, "view", None)
    for f in facts:
        ex.assume(f)
    return v


def sql_insert(ex, key, tbl, stt, params, e):
    sch = tbl.sch
    auto = [c for c in sch.cols if c.autoinc]
    if auto:
        r = ex.st.np_next
        ex.assume(Not(tbl.live[r]))     # I2: rowids >= next are unused (AUTOINCREMENT)
        ex.st.np_next = r + 1
    else:
        r = fresh("newrow", INT)
        ex.assume(Not(tbl.live[r]))
    cols, nulls = {}, {}
    vals = dict(zip(stt.cols, params))

    def updated(arr, val, base, sort):
        """arr with index r set to val, as a fresh array with a definitional axiom (E-matching friendly)
        plus the ground instance at r"""
        na = fresh(base, ArraySort(INT, sort))
        ex.assume(FA([INT], lambda q: na[q] == If(q == r, val, arr[q]), pats=lambda q: [na[q], arr[q]]))
        ex.assume(na[r] == val)
        return na
    for c in sch.cols:
        if c.kind == "int" and c.pk:
            if c.name in vals:
                raise Unsupported("explicit rowid insert")
            continue
        if c.name in vals:
            isn, t = to_opt(vals[c.name], c.kind)
            if c.nullable:
                nulls[c.name] = updated(tbl.nulls[c.name], isn, "%s.%s.null~ins" % (key, c.name), BOOL)
            else:
                # I10: this column must never receive None
                ex.require(Not(isn), "NullIntoKeyColumn", e)
            cols[c.name] = updated(tbl.cols[c.name], t, "%s.%s~ins" % (key, c.name), sort_of(c.kind))
        else:
            if not c.nullable:
                ex.require(BoolVal(False), "NullIntoKeyColumn", e)
            else:
                nulls[c.name] = updated(tbl.nulls[c.name], BoolVal(True), "%s.%s.null~ins" % (key, c.name), BOOL)
    # constraints: PRIMARY KEY uniqueness, FOREIGN KEY parents (A6)
    for c in sch.cols:
        if c.pk and not (c.kind == "int"):
            isn, t = to_opt(vals[c.name], c.kind)
            ex.require(tbl.none(lambda row, c=c, t=t: row._t.get(c.name, row.r) == t), "IntegrityError", e)
        if c.ref and c.name in vals:
            pk = "%s.%s" % (sch.db, c.ref[0])
            ptbl = ex.st.t(pk)
            isn, t = to_opt(vals[c.name], c.kind)
            ex.require(Or(isn, ptbl.exists(lambda row, c=c, t=t: row._t.get(c.ref[1], row.r) == t)),
                       "IntegrityError", e)
    ex.st.tabs[key] = tbl.with_(live=updated(tbl.live, BoolVal(True), "%s.live~ins" % key, BOOL), cols=cols, nulls=nulls)
    return VCursor("insert", lastrowid=r)


def sql_update(ex, key, tbl, stt, params, e, pred=None):
    sch = tbl.sch
    setv = params[:len(stt.sets)]
    if pred is None:
        pred = where_pred(tbl, stt.where, params[len(stt.sets):])
    cols, nulls = {}, {}
    axioms = []
    for c, v in zip(stt.sets, setv):
        col = sch.col(c)
        if col.pk or col.ref or any(ch[2] == c for ch in fk_children(key)):
            raise Unsupported("UPDATE of key column %s at %d" % (c, e.lineno))
        isn, t = to_opt(v, col.kind)
        if not col.nullable:
            ex.require(Not(isn), "NullIntoKeyColumn", e)
        nc = fresh("%s.%s~upd" % (key, c), ArraySort(INT, sort_of(col.kind)))
        ex.assume(FA([INT], lambda r, nc=nc, c=c, t=t: nc[r] == If(And(tbl.live[r], pred(r)), t, tbl.cols[c][r]),
                     pats=lambda r, nc=nc, c=c: [nc[r], tbl.cols[c][r]]))
        cols[c] = nc
        if col.nullable:
            nn = fresh("%s.%s.null~upd" % (key, c), ArraySort(INT, BOOL))
            ex.assume(FA([INT], lambda r, nn=nn, c=c, isn=isn: nn[r] == If(And(tbl.live[r], pred(r)), isn,
                                                                          tbl.nulls[c][r]),
                         pats=lambda r, nn=nn, c=c: [nn[r], tbl.nulls[c][r]]))
            nulls[c] = nn
    ex.st.tabs[key] = tbl.with_(cols=cols, nulls=nulls)
    return VCursor("update")


def sql_delete(ex, key, tbl, stt, params, e, pred=None):
    if pred is None:
        pred = where_pred(tbl, stt.where, params)
    # FK: no live child row references a deleted parent row (immediate enforcement)
    for (ckey, ccol, pcol) in fk_children(key):
        ctbl = ex.st.t(ckey)
        ex.require(FA([INT, INT], lambda r, q: Not(And(tbl.live[r], pred(r), ctbl.live[q],
                                                       Not(ctbl.isnull(ccol, q)),
                                                       ctbl.get(ccol, q) == tbl.get(pcol, r)))),
                   "IntegrityError", e)
    nl = fresh("%s.live~del" % key, ArraySort(INT, BOOL))
    ex.assume(FA([INT], lambda r: nl[r] == And(tbl.live[r], Not(pred(r))), pats=lambda r: [nl[r], tbl.live[r]]))
    ex.st.tabs[key] = tbl.with_(live=nl)
    return VCursor("delete")
