"""Symbolic Python values (Appendix C of DESIGN.md): concrete shape, symbolic
content."""
import z3
from .zs import *  # noqa


class Unsupported(Exception):
    """Construct outside the accepted subset: the check exits 2 (UNDECIDED)."""


class V:
    pass


class VConst(V):
    def __init__(self, py):
        self.py = py

    def __repr__(self):
        return "VConst(%r)" % (self.py,)


class VZ(V):
    """A z3 term of kind bool/int/real/str/json."""

    def __init__(self, term, kind):
        self.t = term
        self.kind = kind

    def __repr__(self):
        return "VZ(%s:%s)" % (self.t, self.kind)


class VRef(V):
    """Heap reference (Int); 0 is None when nullable."""

    def __init__(self, term, cls, nullable=False):
        self.t = term
        self.cls = cls
        self.nullable = nullable

    def __repr__(self):
        return "VRef(%s:%s)" % (self.t, self.cls)


class VOpt(V):
    def __init__(self, is_none, val):
        self.is_none = tobool(is_none)
        self.val = val

    def __repr__(self):
        return "VOpt(%s,%r)" % (self.is_none, self.val)


class VRow(V):
    """One fetched row: a snapshot table and a rowid."""

    def __init__(self, tbl, rid, view=None):
        self.tbl = tbl
        self.rid = rid
        self.view = view      # None: every column of tbl; else {key: (tbl, rowterm, column)} (column list / JOIN)


class VUnknownColl(V):
    """A local container whose contents the contracts say nothing about (e.g. a set mutated inside a loop under
    contract without being declared loop-carried state): membership tests and truthiness are unconstrained."""

    def __init__(self, why):
        self.why = why


class VRowList(V):
    """fetchall(): n rows, rid[i] the rowid of the i-th, over a snapshot."""

    def __init__(self, tbl, n, rid, idx, pred):
        self.tbl, self.n, self.rid, self.idx, self.pred = tbl, n, rid, idx, pred

    def member(self, r):
        return And(self.tbl.live[r], self.pred(r))

    def at(self, i):
        vf = getattr(self, "viewfn", None)
        return VRow(self.tbl, self.rid[i], vf(self.rid[i]) if vf else None)


class VList(V):
    """A list of length n (Int term) whose i-th element is elem(i) (a V)."""

    def __init__(self, n, elem):
        self.n = n
        self.elem = elem

    def at(self, i):
        return self.elem(i)


class VBag(V):
    """A collection known only through membership: contains(term)->Bool and
    nonempty (filtered comprehensions, list(set))."""

    def __init__(self, kind, contains, nonempty):
        self.kind = kind
        self.contains = contains
        self.nonempty = nonempty


class VSet(V):
    """A Python set of scalars: membership array kind -> Bool."""

    def __init__(self, kind, mem):
        self.kind = kind
        self.mem = mem  # z3 array

    def contains(self, t):
        return self.mem[t]


class VAcc(V):
    """A local accumulator created by set() / []; .cur is its current value."""

    def __init__(self, cur):
        self.cur = cur


class VTuple(V):
    def __init__(self, items):
        self.items = list(items)


class VNamed(V):
    def __init__(self, name, fields):
        self.name = name
        self.fields = fields


class VMap(V):
    """A Python dict with constant string keys (kwargs, frames under
    construction, the welcome dict as an opaque)."""

    def __init__(self, d=None):
        self.d = dict(d or {})


class VMsg(V):
    """The parsed command (A9): key -> (has: Bool, typed value)."""

    def __init__(self, name, schema):
        self.name = name
        self.schema = schema
        self.cache = {}
        self.whole = Const("%s!json" % name, Json)

    def has(self, key):
        return Const("%s.has.%s" % (self.name, key), BOOL)

    def val(self, key):
        kind = self.schema.get(key, "json")
        if kind == "optstr":
            return VOpt(Const("%s.%s.isnull" % (self.name, key), BOOL),
                        VZ(Const("%s.%s" % (self.name, key), Str), "str"))
        if kind == "pair":
            return VTuple([VZ(Const("%s.%s.0" % (self.name, key), Json), "json"),
                           VZ(Const("%s.%s.1" % (self.name, key), Json), "json")])
        return VZ(Const("%s.%s" % (self.name, key), sort_of(kind)), kind)


class VDict(V):
    """A registry dict living in a heap field: obj ref + field name."""

    def __init__(self, cls, field, obj, valcls):
        self.cls, self.field, self.obj, self.valcls = cls, field, obj, valcls


class VListeners(V):
    def __init__(self, obj):
        self.obj = obj


class VCallback(V):
    def __init__(self, which, handle):
        self.which = which
        self.handle = handle


class VClosure(V):
    def __init__(self, fdef, env, qual):
        self.fdef, self.env, self.qual = fdef, env, qual


class VBound(V):
    def __init__(self, recv, name):
        self.recv, self.name = recv, name


class VConn(V):
    def __init__(self, which):
        self.which = which  # 'ch' | 'us'


class VCursor(V):
    def __init__(self, kind, **kw):
        self.kind = kind
        self.__dict__.update(kw)


class VExc(V):
    def __init__(self, cls, fields=None, node=None):
        self.cls = cls
        self.fields = fields or {}
        self.node = node


class VModule(V):
    def __init__(self, name):
        self.name = name


class VFunc(V):
    """A module-level function or builtin, by name."""

    def __init__(self, name):
        self.name = name


class VClass(V):
    def __init__(self, name):
        self.name = name


class VOpaque(V):
    """A value the code only passes around (welcome dict, log file)."""

    def __init__(self, term):
        self.t = term  # Json-sorted term


def kind_of(v):
    if isinstance(v, VZ):
        return v.kind
    if isinstance(v, VConst):
        py = v.py
        if isinstance(py, bool):
            return "bool"
        if isinstance(py, int):
            return "int"
        if isinstance(py, float):
            return "real"
        if isinstance(py, str):
            return "str"
        if py is None:
            return "none"
    if isinstance(v, VOpt):
        return "opt"
    return type(v).__name__


def to_term(v, kind):
    """Coerce a non-optional scalar V to a z3 term of `kind`."""
    if isinstance(v, VOpaque) and kind == "json":
        return v.t
    if isinstance(v, VConst):
        py = v.py
        if kind == "bool" and isinstance(py, (bool, int)):
            return BoolVal(bool(py))
        if kind == "int" and isinstance(py, int):
            return IntVal(int(py))
        if kind == "real" and isinstance(py, (int, float)):
            return RealVal(py)
        if kind == "str" and isinstance(py, str):
            return S(py)
        if kind == "json":
            if py is None:
                return JNULL
            if isinstance(py, str):
                return jstr(S(py))
            if isinstance(py, (int, float)) and not isinstance(py, bool):
                return jnum(RealVal(py))
        raise Unsupported("cannot coerce constant %r to %s" % (py, kind))
    if isinstance(v, VZ):
        if v.kind == kind:
            return v.t
        if v.kind == "int" and kind == "real":
            return z3.ToReal(v.t)
        if v.kind == "bool" and kind in ("int", "real"):
            return If(v.t, 1, 0) if kind == "int" else If(v.t, RealVal(1), RealVal(0))
        if kind == "json":
            if v.kind == "str":
                return jstr(v.t)
            if v.kind == "real":
                return jnum(v.t)
            if v.kind == "int":
                return jnum(z3.ToReal(v.t))
        raise Unsupported("cannot coerce %s to %s" % (v.kind, kind))
    raise Unsupported("cannot coerce %r to %s" % (v, kind))


def to_opt(v, kind):
    """(is_none Bool, term) for a possibly-None scalar."""
    if isinstance(v, VConst) and v.py is None:
        return BoolVal(True), default_term(kind)
    if isinstance(v, VOpt):
        if isinstance(v.val, VConst) and v.val.py is None:
            return BoolVal(True), default_term(kind)
        return v.is_none, to_term(v.val, kind)
    return BoolVal(False), to_term(v, kind)


def default_term(kind):
    return {"str": EMPTY, "bool": BoolVal(False), "int": IntVal(0),
            "real": RealVal(0), "json": JNULL}[kind]
