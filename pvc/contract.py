"""Contract language (DESIGN 5): sidecar contracts keyed by qualified function
name. Clauses are Python generator functions that build z3 terms from a Ctx."""
from .zs import *  # noqa
from .values import *  # noqa
from .state import Tbl, schema
from . import heap as H

REGISTRY = {}


class RaisesClause:
    def __init__(self, exc, name, when, post, fields, tags):
        self.exc, self.name, self.when, self.post, self.fields, self.tags = exc, name, when, post, fields, tags


class LoopSpec:
    def __init__(self, ordinal, modifies, locals_, inv, tags, unroll=None, over=None):
        self.ordinal, self.modifies, self.locals, self.inv, self.tags = ordinal, modifies, locals_, inv, tags
        self.unroll = unroll
        self.over = over      # source text of the iterated expression (whitespace-normalised), or None: keyed by ordinal
        self.step = None      # fn(c, L, head) -> (name, term): what ONE iteration does (head state -> end of body)


class Contract:
    def __init__(self, qual, cls=None, params=None, result=None, modifies=(), tags=(),
                 self_fields=None, inline=False):
        self.qual = qual
        self.cls = cls
        self.params = params or {}
        self.result = result
        self.modifies = list(modifies)
        self.tags = list(tags)          # properties that rely on this function's safety obligations
        self._requires, self._ensures, self._raises = [], [], []
        self.free = {}
        self.loops = {}
        self.expected_dead = []
        REGISTRY[qual] = self

    # decorators
    def requires(self, fn):
        self._requires.append(fn)
        return fn

    def ensures(self, fn):
        self._ensures.append(fn)
        return fn

    def raises(self, exc, name, tags=(), fields=None, iff=True):
        """fn(c) yields ("when", term) once and then (name, term) post clauses.
        iff=True: the exception is raised exactly when `when` holds; iff=False:
        only if (oracle-dependent raises)."""
        def deco(fn):
            self._raises.append((exc, name, fn, fields or {}, list(tags), iff))
            return fn
        return deco

    def loop(self, ordinal, modifies=(), locals_=(), tags=(), unroll=None, over=None):
        def deco(fn):
            self.loops[ordinal] = LoopSpec(ordinal, list(modifies), list(locals_), fn, list(tags), unroll, over)
            return fn
        return deco

    def loop_step(self, ordinal):
        def deco(fn):
            self.loops[ordinal].step = fn
            return fn
        return deco

    # evaluation
    def eval_requires(self, c):
        out = []
        for fn in self._requires:
            for item in fn(c):
                out.append((item[0], tobool(item[1])))
        return out

    def eval_ensures(self, c, with_uses=False, for_caller=False):
        """for_caller: the clauses a call site may assume. A clause whose 5th element is
        {"assume": False} is a top-level (property) clause: proved for the function, not handed to callers."""
        out = []
        for fn in self._ensures:
            for item in fn(c):
                if for_caller and len(item) > 4 and item[4] and item[4].get("assume") is False:
                    continue
                name, term = item[0], tobool(item[1])
                tags = list(item[2]) if len(item) > 2 else []
                uses = list(item[3]) if len(item) > 3 and item[3] is not None else None
                out.append((name, term, tags, uses) if with_uses else (name, term, tags))
        return out

    def eval_raises(self, c, for_caller=False):
        """-> list of (exc, name, when_term, [(pname, term)], fields, tags, iff)"""
        out = []
        for exc, name, fn, fields, tags, iff in self._raises:
            when = None
            posts = []
            for item in fn(c):
                if item[0] == "when":
                    when = tobool(item[1])
                elif for_caller and len(item) > 2 and item[2] and item[2].get("assume") is False:
                    continue      # a top-level (property) clause: proved, not handed to callers
                else:
                    posts.append((item[0], tobool(item[1])))
            out.append((exc, name, when, posts, fields, tags, iff))
        return out


def contract(qual, **kw):
    return Contract(qual, **kw)


class Args:
    def __init__(self, d):
        self.__dict__["_d"] = d

    def __getattr__(self, k):
        v = self._d[k]
        return v

    def t(self, k, kind=None):
        v = self._d[k]
        if isinstance(v, VZ):
            return v.t if kind is None else to_term(v, kind)
        if isinstance(v, VRef):
            return v.t
        if isinstance(v, VConst):
            return to_term(v, kind or kind_of(v))
        raise TypeError("argument %s is not scalar: %r" % (k, v))


class SelfView:
    def __init__(self, st, ref, cls):
        self._st, self.ref, self._cls = st, ref, cls

    def f(self, field, st=None):
        st = st or self._st
        return st.heap["%s.%s" % (self._cls, field)][self.ref]


class Ctx:
    """What a clause sees: pre/post states, arguments, receiver, result."""

    def __init__(self, pre, post, args, self_ref, cls, result=None, exc=None, ghosts=None):
        self.ghosts = ghosts or {}
        self.pre, self.post = pre, post
        self.a = Args(args)
        self.self_ref = self_ref
        self.cls = cls
        self.result = result
        self.exc = exc

    def ghost(self, callee):
        """result of the (last) call to `callee` on this path, when the function itself is being
        verified; None at call sites (clauses then fall back to an existential statement)"""
        return self.ghosts.get(callee)

    def sf(self, field, st=None):
        """value of self.<field> (pre-state unless st given)"""
        st = st or self.pre
        return st.heap["%s.%s" % (self.cls, field)][self.self_ref]


def make_symbolic(spec, base):
    """Fresh symbolic value of the given shape -> (V, facts)."""
    facts = []
    if spec is None or spec == "none":
        return VConst(None), facts
    if spec in ("str", "real", "int", "bool", "json"):
        return VZ(fresh(base, sort_of(spec)), spec), facts
    if spec.startswith("opt"):
        k = spec[3:]
        return VOpt(fresh(base + ".isnone", BOOL), VZ(fresh(base, sort_of(k)), k)), facts
    if spec.startswith("ref?:"):
        return VRef(fresh(base, INT), spec[5:], nullable=True), facts
    if spec.startswith("ref:"):
        r = fresh(base, INT)
        facts.append(r != 0)
        return VRef(r, spec[4:]), facts
    if spec == "sm":
        return VNamed("SidedMessage", {
            "side": VZ(fresh(base + ".side", Str), "str"),
            "phase": VZ(fresh(base + ".phase", Str), "str"),
            "body": VZ(fresh(base + ".body", Str), "str"),
            "server_rx": VZ(fresh(base + ".server_rx", REAL), "real"),
            "msg_id": VZ(fresh(base + ".msg_id", Json), "json")}), facts
    if spec == "usage":
        return VNamed("Usage", {
            "started": VZ(fresh(base + ".started", REAL), "real"),
            "waiting_time": VOpt(fresh(base + ".waiting.isnone", BOOL), VZ(fresh(base + ".waiting", REAL), "real")),
            "total_time": VZ(fresh(base + ".total", REAL), "real"),
            "result": VZ(fresh(base + ".result", Str), "str")}), facts
    if spec.startswith("list:sm@rowlist:"):
        lst, facts = make_symbolic("list:sm", base)
        sch = schema()[spec.split("rowlist:")[1]]
        tbl = Tbl.fresh(sch, base + ".snap")
        P = fresh(base + ".pred", ArraySort(INT, BOOL))
        rl, f2 = symbolic_rowlist(tbl, lambda r: P[r], base + ".rows")
        lst.origin = rl
        return lst, facts + f2
    if spec == "list:sm":
        n = fresh(base + ".n", INT)
        facts.append(n >= 0)
        arrs = {"side": fresh(base + ".side", ArraySort(INT, Str)),
                "phase": fresh(base + ".phase", ArraySort(INT, Str)),
                "body": fresh(base + ".body", ArraySort(INT, Str)),
                "server_rx": fresh(base + ".server_rx", ArraySort(INT, REAL)),
                "msg_id": fresh(base + ".msg_id", ArraySort(INT, Json))}
        kinds = {"side": "str", "phase": "str", "body": "str", "server_rx": "real", "msg_id": "json"}

        def elem(i):
            return VNamed("SidedMessage", {k: VZ(arrs[k][i], kinds[k]) for k in arrs})
        return VList(n, elem), facts
    if spec.startswith("set:"):
        k = spec[4:]
        return VSet(k, fresh(base, ArraySort(sort_of(k), BOOL))), facts
    if spec.startswith("setorlist:"):
        k = spec[10:]
        return VSet(k, fresh(base, ArraySort(sort_of(k), BOOL))), facts
    if spec.startswith("rowlist:"):
        sch = schema()[spec[8:]]
        tbl = Tbl.fresh(sch, base + ".snap")
        v, f2 = symbolic_rowlist(tbl, lambda r: BoolVal(True), base)
        return v, facts + f2
    if spec == "pair:json":
        return VTuple([VZ(fresh(base + ".0", Json), "json"), VZ(fresh(base + ".1", Json), "json")]), facts
    raise Unsupported("make_symbolic: %s" % spec)


def symbolic_rowlist(tbl, pred, base, order=None):
    n = fresh(base + ".n", INT)
    rid = fresh(base + ".rid", ArraySort(INT, INT))
    idx = fresh(base + ".idx", ArraySort(INT, INT))
    facts = [n >= 0]
    facts.append(FA([INT], lambda i: Implies(And(0 <= i, i < n),
                                             And(tbl.live[rid[i]], pred(rid[i]), idx[rid[i]] == i)),
                    pats=lambda i: [rid[i]]))
    facts.append(FA([INT], lambda r: Implies(And(tbl.live[r], pred(r)),
                                             And(0 <= idx[r], idx[r] < n, rid[idx[r]] == r)),
                    pats=lambda r: [idx[r], tbl.live[r]]))
    # ground instances of the first axiom for the indices the code base tests (len > 0, 1, 2)
    for k in range(3):
        facts.append(Implies(n > k, And(tbl.live[rid[k]], pred(rid[k]), idx[rid[k]] == k)))
    if order:
        facts.append(FA([INT, INT], lambda i, j: Implies(And(0 <= i, i < j, j < n),
                                                         tbl.get(order, rid[i]) <= tbl.get(order, rid[j]))))
    return VRowList(tbl, n, rid, idx, pred), facts
