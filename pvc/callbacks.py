"""Outbox primitive and listener callbacks (DESIGN 4.4, 4.5)."""
import z3
from .zs import *  # noqa
from .values import *  # noqa
from . import heap as H


def to_fv(ex, v, node):
    """Python value -> frame field value"""
    if isinstance(v, VConst):
        if v.py is None:
            return H.FV.fnone
        if isinstance(v.py, str):
            return H.FV.fstr(S(v.py))
        if isinstance(v.py, (int, float)) and not isinstance(v.py, bool):
            return H.FV.fnum(RealVal(v.py))
    if isinstance(v, VZ):
        if v.kind == "str":
            return H.FV.fstr(v.t)
        if v.kind == "real":
            return H.FV.fnum(v.t)
        if v.kind == "int":
            return H.FV.fnum(z3.ToReal(v.t))
        if v.kind == "json":
            return H.FV.fjson(v.t)
    if isinstance(v, VOpt):
        return If(v.is_none, H.FV.fnone, to_fv(ex, v.val, node))
    if isinstance(v, VOpaque):
        return H.FV.fjson(v.t)
    if isinstance(v, VMsg):
        return H.FV.fjson(v.whole)
    if isinstance(v, VList):
        # the `nameplates` answer: list of {"id": str}
        probe = v.at(fresh("probe", INT))
        if isinstance(probe, VMap) and set(probe.d) == {"id"}:
            arr = fresh("ids", ArraySort(INT, Str))
            ex.assume(FA([INT], lambda i: Implies(And(0 <= i, i < v.n), arr[i] == to_term(v.at(i).d["id"], "str")),
                         pats=lambda i: [arr[i]]))
            return H.FV.fids(v.n, arr)
        if v.n.eq(IntVal(0)):
            return H.FV.fids(IntVal(0), K(INT, EMPTY))
    raise Unsupported("frame field value %r at %d" % (v, getattr(node, "lineno", 0)))


def emit(ex, conn, frame, node):
    """append `frame` to out[conn]; Clean is required at every emission (C09)"""
    st = ex.st
    ex.oblige("emit@%d.clean" % node.lineno, And(Not(st.in_tx["ch"]), Not(st.in_tx["us"])),
              ["C09"], node.lineno, "emit")
    n = st.out_len[conn]
    st.out_buf = Store(st.out_buf, conn, Store(st.out_buf[conn], n, frame))
    st.out_len = Store(st.out_len, conn, n + 1)
    if hasattr(ex, "emissions"):
        ex.emissions.append((node.lineno, conn, frame, ex.st.copy(), len(ex.p.pc)))


def send_message(ex, recv, args, node):
    """WebSocketServerProtocol.sendMessage(payload, False): A10"""
    payload = args[0]
    if not isinstance(payload, VFrame):
        raise Unsupported("sendMessage of a non-frame at %d" % node.lineno)
    if len(args) < 2 or not (isinstance(args[1], VConst) and args[1].py is False):
        raise Unsupported("sendMessage must be text (isBinary=False) at %d" % node.lineno)
    emit(ex, recv.t, payload.t, node)
    return VConst(None)


class VFrame(V):
    def __init__(self, t):
        self.t = t


def dict_to_bytes(ex, v, node):
    """util.dict_to_bytes(kwargs): A9 injective serialisation; the frame is the map"""
    if not isinstance(v, VMap):
        raise Unsupported("dict_to_bytes of %r" % (v,))
    fr = H.EMPTY_FRAME
    for k in sorted(v.d):
        fr = Store(fr, S(k), to_fv(ex, v.d[k], node))
    return VFrame(fr)


def check_registration(ex, handle, send_f, stop_f, node):
    """add_listener(handle, send_f, stop_f): verify the two closures against the
    callback contract with handle = the registering connection."""
    from .contract import REGISTRY
    cb = REGISTRY.get("callback.listener")
    if cb is None:
        raise Unsupported("no callback contract for listeners")
    cb.check(ex, handle, send_f, stop_f, node)


def call(ex, f, args, node):
    from .contract import REGISTRY
    cb = REGISTRY.get("callback.listener")
    if cb is None:
        raise Unsupported("no callback contract for listeners")
    return cb.apply(ex, f, args, node)
