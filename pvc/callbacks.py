"""Outbox primitive and listener callbacks (DESIGN 4.4, 4.5)."""
import z3
from .zs import *  # noqa
from .values import *  # noqa
from . import heap as H


def to_fv(ex, v, node):
    """Python value -> frame field value"""
    if isinstance(v, VConst):
        if v.py is None:
            return H.FV.fnone
        if isinstance(v.py, str):
            return H.FV.fstr(S(v.py))
        if isinstance(v.py, (int, float)) and not isinstance(v.py, bool):
            return H.FV.fnum(RealVal(v.py))
    if isinstance(v, VZ):
        if v.kind == "str":
            return H.FV.fstr(v.t)
        if v.kind == "real":
            return H.FV.fnum(v.t)
        if v.kind == "int":
            return H.FV.fnum(z3.ToReal(v.t))
        if v.kind == "json":
            return H.FV.fjson(v.t)
    if isinstance(v, VOpt):
        return If(v.is_none, H.FV.fnone, to_fv(ex, v.val, node))
    if isinstance(v, VOpaque):
        return H.FV.fjson(v.t)
    if isinstance(v, VMsg):
        return H.FV.fjson(v.whole)
    if isinstance(v, VList):
        # the `nameplates` answer: list of {"id": str}
        probe = v.at(fresh("probe", INT))
        if isinstance(probe, VMap) and set(probe.d) == {"id"}:
            arr = fresh("ids", ArraySort(INT, Str))
            ex.assume(FA([INT], lambda i: Implies(And(0 <= i, i < v.n), arr[i] == to_term(v.at(i).d["id"], "str")),
                         pats=lambda i: [arr[i], to_term(v.at(i).d["id"], "str")]))
            return H.FV.fids(v.n, arr)
        if v.n.eq(IntVal(0)):
            return H.FV.fids(IntVal(0), K(INT, EMPTY))
    raise Unsupported("frame field value %r at %d" % (v, getattr(node, "lineno", 0)))


def emit(ex, conn, frame, node):
    """append `frame` to out[conn]; Clean is required at every emission (C09)"""
    st = ex.st
    ex.oblige("emit@%d.clean" % node.lineno, And(Not(st.in_tx["ch"]), Not(st.in_tx["us"])),
              ["C09"], node.lineno, "emit")
    n = st.out_len[conn]
    st.out_buf = Store(st.out_buf, conn, Store(st.out_buf[conn], n, frame))
    st.out_len = Store(st.out_len, conn, n + 1)
    if hasattr(ex, "emissions"):
        ex.emissions.append((node.lineno, getattr(ex, "_emit_type", None), ex.st.copy()))


def send_message(ex, recv, args, node):
    """WebSocketServerProtocol.sendMessage(payload, False): A10"""
    payload = args[0]
    if not isinstance(payload, VFrame):
        raise Unsupported("sendMessage of a non-frame at %d" % node.lineno)
    if len(args) < 2 or not (isinstance(args[1], VConst) and args[1].py is False):
        raise Unsupported("sendMessage must be text (isBinary=False) at %d" % node.lineno)
    emit(ex, recv.t, payload.t, node)
    return VConst(None)


class VFrame(V):
    def __init__(self, t):
        self.t = t


def dict_to_bytes(ex, v, node):
    """util.dict_to_bytes(kwargs): A9 injective serialisation; the frame is the map"""
    if not isinstance(v, VMap):
        raise Unsupported("dict_to_bytes of %r" % (v,))
    fr = H.EMPTY_FRAME
    for k in sorted(v.d):
        fr = Store(fr, S(k), to_fv(ex, v.d[k], node))
    return VFrame(fr)


def check_registration(ex, handle, send_f, stop_f, node):
    """add_listener(handle, send_f, stop_f): verify the two closures against the
    callback contract with handle = the registering connection."""
    from .contract import REGISTRY
    cb = REGISTRY.get("callback.listener")
    if cb is None:
        raise Unsupported("no callback contract for listeners")
    cb.check(ex, handle, send_f, stop_f, node)


def call(ex, f, args, node):
    from .contract import REGISTRY
    cb = REGISTRY.get("callback.listener")
    if cb is None:
        raise Unsupported("no callback contract for listeners")
    return cb.apply(ex, f, args, node)


# ---------------------------------------------------------------------------
# WebSocketServer.send(mtype, **kwargs) and the listener callbacks
# ---------------------------------------------------------------------------

class VFrameMap(V):
    """**kwargs of send() as an abstract frame (key -> FV)"""

    def __init__(self, t):
        self.t = t


def frame_of(ex, mtype, kwargs, tx, node):
    fr = H.EMPTY_FRAME
    for k in sorted(kwargs):
        fr = Store(fr, S(k), to_fv(ex, kwargs[k], node))
    fr = Store(fr, S("type"), to_fv(ex, mtype, node))
    fr = Store(fr, S("server_tx"), H.FV.fnum(tx))
    return fr


def apply_send(ex, recv, args, kwargs, node):
    """call-site contract of WebSocketServer.send: append kw + {type, server_tx}
    to out[self]; requires Clean (C09). Verified against the real body by the
    function `server_websocket.WebSocketServer.send`."""
    if len(args) != 1:
        raise Unsupported("send() arity at %d" % node.lineno)
    tx = ex.clock().t
    ex._emit_type = args[0].py if isinstance(args[0], VConst) else None
    emit(ex, recv.t, frame_of(ex, args[0], kwargs, tx, node), node)
    ex._emit_type = None
    return VConst(None)


def message_frame(ex, sm, tx, node):
    f = sm.fields
    return frame_of(ex, VConst("message"), {"side": f["side"], "phase": f["phase"], "body": f["body"],
                                            "server_rx": f["server_rx"], "id": f["msg_id"]}, tx, node)


STOP_EFFECT = "drop_handle"    # what stop_f() does: the connection drops its handle (F5 repair)


class ListenerCallbacks:
    """callback contract of the (send_f, stop_f) pairs stored in Mailbox._listeners:
    send_f(sm) appends message(sm) to out[handle] and nothing else; stop_f() has
    the effect STOP_EFFECT on the handle."""

    def apply(self, ex, f, args, node):
        if f.which == "send":
            if len(args) != 1 or not isinstance(args[0], VNamed):
                raise Unsupported("send_f argument at %d" % node.lineno)
            tx = ex.clock().t
            emit(ex, f.handle, message_frame(ex, args[0], tx, node), node)
            return VConst(None)
        if f.which == "stop":
            stop_effect(ex, f.handle)
            return VConst(None)
        raise Unsupported("callback %s" % f.which)

    def check(self, ex, handle, send_f, stop_f, node):
        for which, f in (("send", send_f), ("stop", stop_f)):
            if isinstance(f, VCallback):
                ok = f.which == which and f.handle.eq(handle.t)
                ex.oblige("registers.%s_f@%d" % (which, node.lineno), BoolVal(ok), ["C02"], node.lineno, "callback")
                continue
            if not isinstance(f, VClosure):
                raise Unsupported("listener callback is not a closure at %d" % node.lineno)
            self.check_closure(ex, which, handle, f, node)

    def check_closure(self, ex, which, handle, f, node):
        from .contract import make_symbolic
        from .state import comp_eq, ident
        saved = ex.st.copy()
        npc = len(ex.p.pc)
        nobl = len(ex.p.obls)
        clock = ex.last_clock
        # the callback may be invoked in any later state in which Clean holds
        for comp in ex.st.components():
            ex.st.havoc(comp, "cb")
        ex.assume(And(Not(ex.st.in_tx["ch"]), Not(ex.st.in_tx["us"])))
        before = ex.st.copy()
        if which == "send":
            sm, facts = make_symbolic("sm", "cb.sm")
            ex.call_closure(f, [sm], {}, node)
            want = before.copy()
            n = before.out_len[handle.t]
            tx = H.FV.x(ex.st.out_buf[handle.t][n][S("server_tx")])
            want.out_buf = Store(before.out_buf, handle.t, Store(before.out_buf[handle.t], n,
                                                                 message_frame(ex, sm, tx, node)))
            want.out_len = Store(before.out_len, handle.t, n + 1)
        else:
            ex.call_closure(f, [], {}, node)
            want = before.copy()
            tmp = ex.st
            ex.st = want
            stop_effect(ex, handle.t)
            ex.st = tmp
        for name in ex.st.components():
            a, b = want.get_comp(name), ex.st.get_comp(name)
            if ident(a, b):
                continue
            ex.oblige("registers.%s_f.effect.%s@%d" % (which, name, node.lineno), comp_eq(name, a, b),
                      ["C01", "C02", "C08", "C13", "C17"], node.lineno, "callback")
        # obligations generated while executing the closure keep their local facts
        for o in ex.p.obls[nobl:]:
            o.extra_hyps = list(ex.p.pc[npc:o.nhyps]) + o.extra_hyps
            o.nhyps = npc
        del ex.p.pc[npc:]
        ex.st = saved
        ex.last_clock = clock


def stop_effect(ex, h):
    if STOP_EFFECT == "none":
        return
    if STOP_EFFECT == "drop_handle":
        hp = ex.st.heap
        hp["WebSocketServer._mailbox"] = Store(hp["WebSocketServer._mailbox"], h, 0)
        hp["WebSocketServer._listening"] = Store(hp["WebSocketServer._listening"], h, False)
        return
    raise Unsupported(STOP_EFFECT)


from .contract import REGISTRY  # noqa: E402
REGISTRY["callback.listener"] = ListenerCallbacks()
