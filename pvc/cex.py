"""Counterexamples for failed obligations.

The solver gives no model for these quantified queries (it answers `unknown`), so a failing input
is looked for among the recorded protocol-level histories (findings/*.py, one per defect ever found
by the checks, open or fixed): each is run against the real code of the current tree; a history
that fails is the replayed counterexample. Nothing found => the caller reports
`no-failing-input-found`."""
import json
import os
import re
import subprocess

HERE = os.path.dirname(os.path.dirname(os.path.abspath(__file__)))


def search(pid, name, obls):
    fp = os.path.join(HERE, "known_findings.json")
    if not os.path.exists(fp):
        return None
    for f in json.load(open(fp))["findings"]:
        if not any(re.search(pat, name) for pat in f.get("obligations", [])):
            continue
        script = os.path.join(HERE, f["replay"])
        try:
            r = subprocess.run(["/venv/bin/python", script], capture_output=True, text=True, timeout=180,
                               cwd=os.path.dirname(script))
        except Exception:
            continue
        if r.returncode == 0 and "PRESENT" in r.stdout:
            return {"kind": "recorded history replayed on the real code of the current tree", "finding": f["id"],
                    "script": f["replay"], "rerun": "cd /verif/findings && /venv/bin/python %s" % os.path.basename(script),
                    "output": r.stdout.strip()[-1500:]}
    return None
