"""Counterexamples for failed obligations.

The solver gives no model for these quantified queries (it answers `unknown`), so a failing input
is looked for among the recorded protocol-level histories (findings/*.py, one per defect ever found
by the checks, open or fixed): each is run against the real code of the current tree; a history
that fails is the replayed counterexample.  Failing that, for the methods the differential harness
can drive (pvc/diff.py TARGETS, and the helpers they call), the real method is run on reachable
database states (native/diffcheck.py) and a run on which the failed contract clause is false -
precondition true - is the counterexample: a concrete input, pre-state and post-state of the real
code.  Nothing found within the budget => the caller reports `no-failing-input-found`."""
import json
import os
import re
import subprocess

HERE = os.path.dirname(os.path.dirname(os.path.abspath(__file__)))


ENCLOSING = {
    "AppNamespace._summarize_mailbox": ["Mailbox.close", "AppNamespace.prune"],
    "AppNamespace._summarize_mailbox_and_store": ["Mailbox.close", "AppNamespace.prune"],
    "AppNamespace._summarize_nameplate_usage": ["AppNamespace.release_nameplate", "Mailbox.close", "AppNamespace.prune"],
    "AppNamespace._summarize_nameplate_and_store": ["AppNamespace.release_nameplate", "Mailbox.close", "AppNamespace.prune"],
    "Mailbox._touch": ["Mailbox.open"],
    "AppNamespace._add_mailbox": ["AppNamespace.open_mailbox"],
    "AppNamespace._find_available_nameplate_id": ["AppNamespace.allocate_nameplate"],
    "AppNamespace.get_nameplate_ids": ["AppNamespace._get_nameplate_ids"],
}
BUDGET_S = float(os.environ.get("PVC_CEX_BUDGET", "300"))
_spent = [0.0]
_cache = {}


def search_native(pid, name, obls):
    import time
    from . import diff
    fn = (obls[0].get("function") or name.split("#")[0]).replace("server.", "", 1)
    what = name.split("#", 1)[1] if "#" in name else ""
    if fn in diff.TARGETS:
        targets = [fn]
        clause = ".".join(what.split(".")[:2]) if what.startswith(("ensures.", "raises.")) else ""
        if "@" in clause:
            clause = ""
    else:
        targets, clause = ENCLOSING.get(fn, []), ""
    for target in targets:
        key = (target, clause)
        if key not in _cache:
            left = BUDGET_S - _spent[0]
            if left < 20:
                return None
            t0 = time.time()
            try:
                _cache[key] = diff.find_failing(target, clause, budget_s=min(150, left))
            finally:
                _spent[0] += time.time() - t0
        d = _cache[key]
        if d:
            return {"kind": "the real method run on a reachable database state (native/diffcheck.py, seed %d): the contract clause "
                            "is false on this run although the precondition holds" % d["seed"],
                    "method": target, "false_clause": d["clause"], "arguments": d["args"], "app_id": d["app"],
                    "mailbox_id": d["mailbox_id"], "usage_db": d["usage"], "blur": d["blur"], "raised": d["raised"],
                    "result": d["result"], "tables_before": d["pre"], "tables_after": d["post"],
                    "rerun": "cd /verif && python3-vt tools/replay_diff.py %s %d '%s'" % (target, d["seed"], d["clause"])}
    return None


def search(pid, name, obls):
    r = search_recorded(pid, name, obls)
    if r:
        return r
    return search_native(pid, name, obls)


def search_recorded(pid, name, obls):
    fp = os.path.join(HERE, "known_findings.json")
    if not os.path.exists(fp):
        return None
    for f in json.load(open(fp))["findings"]:
        if not any(re.search(pat, name) for pat in f.get("obligations", [])):
            continue
        script = os.path.join(HERE, f["replay"])
        try:
            r = subprocess.run(["/venv/bin/python", script], capture_output=True, text=True, timeout=180,
                               cwd=os.path.dirname(script))
        except Exception:
            continue
        if r.returncode == 0 and "PRESENT" in r.stdout:
            return {"kind": "recorded history replayed on the real code of the current tree", "finding": f["id"],
                    "script": f["replay"], "rerun": "cd /verif/findings && /venv/bin/python %s" % os.path.basename(script),
                    "output": r.stdout.strip()[-1500:]}
    return None
