"""Source loading: the verified text is /repo's working tree, re-read on every
run (DESIGN 2)."""
import ast
import hashlib
import os
from .state import PKG

MODULES = ["server", "server_websocket", "server_tap", "database"]


class Source:
    def __init__(self):
        self.text = {}
        self.tree = {}
        for m in MODULES:
            p = os.path.join(PKG, m + ".py")
            self.text[m] = open(p).read()
            self.tree[m] = ast.parse(self.text[m], filename=p)
        self.index = {}
        for m in MODULES:
            self._walk(m, self.tree[m].body, m)

    def _walk(self, mod, body, prefix):
        for n in body:
            if isinstance(n, (ast.FunctionDef, ast.ClassDef)):
                q = prefix + "." + n.name
                self.index[q] = (mod, n)
                if isinstance(n, ast.ClassDef):
                    self._walk(mod, n.body, q)
                else:
                    self._walk_nested(mod, n, q)

    def _walk_nested(self, mod, fn, q):
        for n in ast.walk(fn):
            if isinstance(n, ast.FunctionDef) and n is not fn:
                self.index[q + ".<locals>." + n.name] = (mod, n)

    def func(self, qual):
        if qual not in self.index:
            raise KeyError("function %s not found in /repo source" % qual)
        return self.index[qual][1]

    def module_of(self, qual):
        return self.index[qual][0]

    def segment(self, qual):
        mod, n = self.index[qual]
        return ast.get_source_segment(self.text[mod], n)

    def sha(self, qual):
        return hashlib.sha256(self.segment(qual).encode()).hexdigest()[:16]

    def module_constants(self, mod):
        """Simple module-level NAME = <constant expression> bindings."""
        out = {}
        for n in self.tree[mod].body:
            if isinstance(n, ast.Assign) and len(n.targets) == 1 and isinstance(n.targets[0], ast.Name):
                try:
                    out[n.targets[0].id] = eval(compile(ast.Expression(n.value), "<const>", "eval"),
                                                {"__builtins__": {}}, dict(out))
                except Exception:
                    pass
        return out

    def class_bases(self, mod):
        out = {}
        for n in self.tree[mod].body:
            if isinstance(n, ast.ClassDef):
                out[n.name] = [ast.unparse(b) for b in n.bases]
        return out
