"""A9: the typed view of a parsed command."""
MSG_SCHEMA = {
    "type": "str", "appid": "str", "side": "str", "nameplate": "str", "mailbox": "str",
    "phase": "str", "body": "str", "mood": "optstr", "id": "json", "ping": "json",
    "client_version": "pair",
}
