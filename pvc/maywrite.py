"""Write-based frame check (Dafny-style `modifies`): every statement of a function under contract that
*may write* a state component - an assignment / del / mutating method call on a `self` field of the heap
model, an INSERT / UPDATE / DELETE / commit on a database connection - must name a component of the
function's `modifies` clause.  Purely syntactic, so it also speaks when symbolic execution stops at an
unsupported construct (the value-based frame obligations at the function's exits then never get generated).
Calls are not followed: a callee under contract is covered by its own check and by the value-based frame
obligations of the caller."""
import ast
import re
from . import heap as H

MUTATORS = {"pop", "clear", "add", "append", "update", "setdefault", "remove", "discard", "extend", "insert", "popitem",
            "__setitem__", "__delitem__"}


def _walk_no_nested(fdef):
    """nodes of the function body, not entering nested function definitions / lambdas (closures run later, under
    the callback contract)"""
    stack = list(fdef.body)
    while stack:
        n = stack.pop()
        yield n
        for ch in ast.iter_child_nodes(n):
            if isinstance(ch, (ast.FunctionDef, ast.AsyncFunctionDef, ast.Lambda)):
                continue
            stack.append(ch)


def _self_field(node):
    """self.F / self.F[...] -> F"""
    if isinstance(node, ast.Subscript):
        node = node.value
    if isinstance(node, ast.Attribute) and isinstance(node.value, ast.Name) and node.value.id == "self":
        return node.attr
    return None


def _db_of(node, aliases):
    if isinstance(node, ast.Attribute) and isinstance(node.value, ast.Name) and node.value.id == "self":
        return {"_db": "ch", "_usage_db": "us"}.get(node.attr)
    if isinstance(node, ast.Name):
        return aliases.get(node.id)
    return None


def may_write(fdef, cls):
    """-> {component: first line}"""
    out = {}

    def add(comp, line):
        out.setdefault(comp, line)
    aliases = {}
    nodes = list(_walk_no_nested(fdef))
    for n in nodes:
        if isinstance(n, ast.Assign) and len(n.targets) == 1 and isinstance(n.targets[0], ast.Name):
            d = _db_of(n.value, {})
            if d:
                aliases[n.targets[0].id] = d
    fields = H.FIELDS.get(cls, {})
    for n in nodes:
        targets = []
        if isinstance(n, ast.Assign):
            targets = n.targets
        elif isinstance(n, (ast.AugAssign, ast.AnnAssign)):
            targets = [n.target]
        elif isinstance(n, ast.Delete):
            targets = n.targets
        for t in targets:
            for tt in (t.elts if isinstance(t, (ast.Tuple, ast.List)) else [t]):
                f = _self_field(tt)
                if f and f in fields:
                    add("heap.%s.%s" % (cls, f), n.lineno)
        if isinstance(n, ast.Call) and isinstance(n.func, ast.Attribute):
            meth, recv = n.func.attr, n.func.value
            f = _self_field(recv)
            if f and f in fields and meth in MUTATORS and isinstance(recv, ast.Attribute):
                add("heap.%s.%s" % (cls, f), n.lineno)
            d = _db_of(recv, aliases)
            if d and meth == "commit":
                add("in_tx.%s" % d, n.lineno)
            if d and meth in ("execute", "executemany", "executescript") and n.args:
                a = n.args[0]
                text = None
                if isinstance(a, ast.Constant) and isinstance(a.value, str):
                    text = a.value
                if text is None:
                    continue
                m = re.match(r"\s*(INSERT\s+(?:OR\s+\w+\s+)?INTO|UPDATE|DELETE\s+FROM|REPLACE\s+INTO)\s+`?(\w+)`?", text, re.I)
                if m:
                    add("%s.%s" % (d, m.group(2)), n.lineno)
                    add("in_tx.%s" % d, n.lineno)
                    if d == "ch" and m.group(2) == "nameplates" and m.group(1).upper().startswith(("INSERT", "REPLACE")):
                        add("np_next", n.lineno)
    return out
