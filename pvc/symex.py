"""Path-based symbolic executor over the real Python AST (DESIGN 5.2, App. C).

Paths are explored by re-execution with a decision prefix; a path carries its
facts (path condition, definitional axioms, callee postconditions) and the
obligations generated along it.  At a call only the callee's contract is used.
"""
import ast
import z3
from .zs import *  # noqa
from .values import *  # noqa
from .state import (State, Tbl, schema, parse_sql, where_pred, comp_eq, tbl_eq, ident)
from .contract import REGISTRY, Ctx, make_symbolic, symbolic_rowlist
from . import heap as H


class PyReturn(Exception):
    def __init__(self, v):
        self.v = v


class PyRaise(Exception):
    def __init__(self, exc):
        self.exc = exc


class PyContinue(Exception):
    pass


class PyBreak(Exception):
    pass


class LoopEnd(Exception):
    """End of the arbitrary-iteration execution of a loop body."""


class Obl:
    def __init__(self, name, goal, nhyps, tags, line=None, kind="ensures"):
        self.name, self.goal, self.nhyps, self.tags, self.line, self.kind = name, goal, nhyps, list(tags), line, kind
        self.extra_hyps = []
        self.uses = None      # names of the preconditions this obligation may use (None = all)


class Path:
    def __init__(self, decisions):
        self.decisions = list(decisions)
        self.width = {}
        self.di = 0
        self.pc = []
        self.obls = []
        self.labels = []
        self.exit = None

    def decide(self, n, label=""):
        if self.di < len(self.decisions):
            c = self.decisions[self.di]
        else:
            c = 0
            self.decisions.append(0)
        self.width[self.di] = n
        self.di += 1
        self.labels.append("%s=%d" % (label, c))
        return c


EXC_BASES = {"CrowdedError": ["Exception"], "ReclaimedError": ["Exception"], "Error": ["Exception"],
             "ValueError": ["Exception"], "AssertionError": ["Exception"], "IndexError": ["Exception"],
             "KeyError": ["Exception"], "TypeError": ["Exception"], "AttributeError": ["Exception"],
             "IntegrityError": ["Exception"], "AnyException": ["Exception"], "Exception": []}


def exc_matches(cls, handler):
    if cls == handler:
        return True
    return any(exc_matches(b, handler) for b in EXC_BASES.get(cls, []))


MODULE_NAMES = {"log", "time", "random", "os", "base64", "json", "service", "websocket"}
BUILTIN_FUNCS = {"isinstance", "type", "len", "sorted", "set", "list", "bool", "any", "all", "sum", "range",
                 "str", "int", "dict", "min", "max", "float", "tuple", "round", "abs", "generate_mailbox_id", "dict_to_bytes", "bytes_to_dict"}
NAMED_TUPLES = {"SidedMessage": ["side", "phase", "body", "server_rx", "msg_id"],
                "Usage": ["started", "waiting_time", "total_time", "result"]}
NT_KINDS = {"SidedMessage": {"side": "str", "phase": "str", "body": "str", "server_rx": "real", "msg_id": "json"}}
EXC_CLASSES = {"CrowdedError", "ReclaimedError", "Error", "ValueError"}
HEAP_CLASSES = {"Mailbox", "AppNamespace"}

card = Function("card", ArraySort(INT, BOOL), INT)   # |listener set| (uninterpreted, A3)


class Exec:
    """Symbolic execution of one function under contract."""

    def __init__(self, src, qual, consts=None):
        self.src = src
        self.qual = qual
        self.con = REGISTRY[qual]
        self.fdef = src.func(qual)
        self.mod = src.module_of(qual)
        self.modconsts = src.module_constants(self.mod)
        self.p = None
        self.st = None
        self.unsupported = []
        self.last_clock = None
        self.oracles = []
        self.loop_ordinals = {}
        loops_ = [n for n in ast.walk(self.fdef) if isinstance(n, (ast.For, ast.While))]
        ordered = sorted(loops_, key=lambda n: (n.lineno, n.col_offset))
        for k, n in enumerate(ordered):
            self.loop_ordinals[id(n)] = k     # source order
        # loop contracts: a spec that names the iterated expression (`over`) goes to the loop iterating over exactly
        # that text (the k-th such loop if there are several); one that does not is keyed by source order.  A spec whose
        # expression no longer occurs falls back to its ordinal unless another spec claims that loop.
        self.loop_specs = {}
        specs = dict(getattr(self.con, "loops", {})) if self.con is not None and self.con.qual == qual else {}
        texts = {id(n): " ".join(ast.unparse(n.iter).split()) if isinstance(n, ast.For) else None for n in ordered}
        left = {}
        for k, sp in sorted(specs.items()):
            if not getattr(sp, "over", None):
                continue
            cands = [n for n in ordered if texts[id(n)] == sp.over and id(n) not in self.loop_specs]
            if cands:
                same = [n for n in cands if self.loop_ordinals[id(n)] == k]
                self.loop_specs[id((same or cands)[0])] = sp
            else:
                left[k] = sp
        for k, sp in sorted(specs.items()):
            if getattr(sp, "over", None) and k not in left:
                continue
            if k < len(ordered) and id(ordered[k]) not in self.loop_specs:
                self.loop_specs[id(ordered[k])] = sp

    # ------------------------------------------------------------------ paths
    def explore(self, max_paths=2000):
        stack = [[]]
        out = []
        while stack:
            prefix = stack.pop()
            p = Path(prefix)
            try:
                self.run_path(p)
            except Unsupported as e:
                # the obligations generated before the unsupported construct still count; the path is
                # reported as undecided from there on - unless the path is infeasible anyway (branches are taken
                # without asking the solver; a type confusion on a path whose condition is contradictory is noise)
                from .loops import implied
                if implied(self, BoolVal(False), 5000):
                    p.exit = ("infeasible", str(e))
                else:
                    p.exit = ("unsupported", str(e))
                    self.unsupported.append(str(e))
            out.append(p)
            for idx in range(len(prefix), len(p.decisions)):
                for alt in range(1, p.width[idx]):
                    stack.append(p.decisions[:idx] + [alt])
            if len(out) > max_paths:
                raise Unsupported("more than %d paths in %s" % (max_paths, self.qual))
        return out

    # ------------------------------------------------------------------ facts
    def assume(self, t):
        t = tobool(t)
        if is_true(t):
            return
        self.p.pc.append(t)

    def oblige(self, name, goal, tags, line=None, kind="ensures", uses=None):
        goal = tobool(goal)
        o = Obl("%s#%s" % (self.qual, name), goal, len(self.p.pc), tags, line, kind)
        o.uses = uses
        self.p.obls.append(o)
        return o

    def require(self, cond, kind, node):
        """Python would raise `kind` here unless cond: obligation, then assume."""
        cond = tobool(cond)
        if is_true(simplify(cond)):
            return
        line = getattr(node, "lineno", 0)
        if any(exc_matches(kind, n) for names in getattr(self, "try_stack", []) for n in names):
            # an enclosing try statement catches this exception: follow both outcomes
            if self.branch(cond, "%s@%d" % (kind, line)):
                return
            raise PyRaise(VExc(kind, {}, node))
        if any(r[0] == kind for r in self.con._raises):
            # the contract declares when this exception is raised: follow both outcomes
            if self.branch(cond, "%s@%d" % (kind, line)):
                return
            raise PyRaise(VExc(kind, {}, node))
        self.oblige("no_exception.%s@%d" % (kind, line), cond, getattr(self.con, "no_exception_tags", None) or self.con.tags,
                    line, "no_exception")
        self.assume(cond)

    def branch(self, cond, label=""):
        cond = tobool(cond)
        c = simplify(cond) if not z3.is_quantifier(cond) else cond
        if is_true(c):
            return True
        if is_false(c):
            return False
        if self.p.decide(2, label) == 0:
            self.assume(cond)
            return True
        self.assume(Not(cond))
        return False

    # ------------------------------------------------------------- run a path
    def run_path(self, p):
        NAMER.reset()
        self.p = p
        self.st = State.symbolic("0")
        self.pre = self.st.copy()
        self.last_clock = None
        self.try_stack = []
        self.oracles = []
        self.call_results = {}
        self.emissions = []
        con = self.con
        env = {}
        self.argvals = {}
        args = self.fdef.args
        names = [a.arg for a in args.args] + ([args.kwarg.arg] if args.kwarg else [])
        self_ref = None
        if con.cls:
            self_ref = Const("self", INT)
            env[names[0]] = VRef(self_ref, con.cls)
            self.assume(self_ref != 0)
            self.assume(self.st.alloc[self_ref])
            names = names[1:]
        for nme in names:
            if nme not in con.params:
                raise Unsupported("no type for parameter %s of %s" % (nme, self.qual))
        for nme, spec in con.params.items():
            v, facts = make_symbolic_named(spec, "arg." + nme)
            for f in facts:
                self.assume(f)
            env[nme] = v
            self.argvals[nme] = v
        for nme, spec in getattr(con, "free", {}).items():
            # free variables of a closure under contract
            if spec == "the_server":
                env[nme] = VRef(H.SERVER, "Server")
            else:
                v, facts = make_symbolic_named(spec, "free." + nme)
                for f in facts:
                    self.assume(f)
                env[nme] = v
                self.argvals[nme] = v
        self.self_ref = self_ref
        # A16: blur_usage is None or a number >= 1
        self.assume(Or(H.CFG_BLUR_NONE, H.CFG_BLUR >= 1))
        c0 = Ctx(self.pre, self.pre, self.argvals, self_ref, con.cls)
        p.req_index = {}
        for name, term in con.eval_requires(c0):
            term = tobool(term)
            if is_true(term):
                continue
            p.req_index[len(p.pc)] = name
            p.pc.append(term)
        p.n_pre = len(p.pc)
        try:
            self.exec_block(self.fdef.body, env)
            self.finish_normal(VConst(None))
        except PyReturn as r:
            self.finish_normal(r.v)
        except PyRaise as e:
            self.finish_raise(e.exc)
        except LoopEnd:
            p.exit = ("loop-end",)

    def frame_obligations(self):
        for name in self.st.components():
            if name in self.con.modifies:
                continue
            a, b = self.pre.get_comp(name), self.st.get_comp(name)
            if ident(a, b):
                continue
            self.oblige("frame.%s" % name, comp_eq(name, a, b), frame_tags(name, self.con.tags), kind="frame")

    DIRECT_RESPONSES = ("allocated", "claimed", "released", "closed")

    def final_obligations(self):
        """C09: a direct response is sent after its effects - nothing is written to either database
        between the emission of allocated / claimed / released / closed and the end of the handler"""
        for (line, ftype, st_then) in self.emissions:
            if ftype not in self.DIRECT_RESPONSES:
                continue
            for name in self.st.components():
                if not (name.startswith("ch.") or name.startswith("us.") or name.startswith("in_tx.")):
                    continue
                a, b = st_then.get_comp(name), self.st.get_comp(name)
                if ident(a, b):
                    continue
                also = {"allocated": ["C04"], "claimed": ["C03"], "released": ["C07"], "closed": ["C08"]}.get(ftype, [])
                self.oblige("emit@%d.final.%s" % (line, name), comp_eq(name, a, b),
                            ["C09"] + [t for t in also if t in self.con.tags], line, "emit")

    def finish_normal(self, result):
        self.p.exit = ("return", result)
        con = self.con
        self.final_obligations()
        if getattr(con, "ghost_exit", None):
            con.ghost_exit(self)
        c = Ctx(self.pre, self.st, self.argvals, self.self_ref, con.cls, result=result, ghosts=self.call_results)
        self.frame_obligations()
        for name, term, tags, uses in con.eval_ensures(c, with_uses=True):
            self.oblige("ensures." + name, term, tags, uses=uses)
        for exc, name, when, posts, fields, tags, iff in con.eval_raises(c):
            if iff:
                self.oblige("raises.%s.%s.complete" % (exc, name), Not(when), tags, kind="raises")

    def finish_raise(self, exc):
        self.p.exit = ("raise", exc.cls)
        con = self.con
        c = Ctx(self.pre, self.st, self.argvals, self.self_ref, con.cls, exc=exc, ghosts=self.call_results)
        clauses = [r for r in con.eval_raises(c) if r[0] == exc.cls]
        line = getattr(exc.node, "lineno", 0)
        if not clauses:
            self.oblige("no_exception.%s@%d" % (exc.cls, line), BoolVal(False), getattr(con, "no_exception_tags", None) or con.tags,
                        line, "no_exception")
            return
        self.frame_obligations()
        alts = []
        for (e, name, when, posts, fields, tags, iff) in clauses:
            m = [when]
            for k, v in fields.items():
                m.append(to_term(exc.fields[k], "str") == S(v))
            alts.append(conj(m))
        alltags = sorted(set(t for cl in clauses for t in cl[5]))
        self.oblige("raises.%s.expected@%d" % (exc.cls, line), disj(alts), alltags, line, "raises")
        for (e, name, when, posts, fields, tags, iff), alt in zip(clauses, alts):
            for pname, term in posts:
                self.oblige("raises.%s.%s.%s" % (exc.cls, name, pname), Implies(alt, term), tags, line, "raises")

    # ------------------------------------------------------------- statements
    def exec_block(self, stmts, env):
        for s in stmts:
            self.exec_stmt(s, env)

    def exec_stmt(self, s, env):
        if isinstance(s, ast.Expr):
            if isinstance(s.value, ast.Constant):
                return
            self.eval(s.value, env)
            return
        if isinstance(s, ast.Assign) and len(s.targets) == 1 and isinstance(s.targets[0], ast.Name):
            env[s.targets[0].id] = self.eval_raw(s.value, env)
            return
        if isinstance(s, ast.Pass):
            return
        if isinstance(s, ast.Break):
            raise PyBreak()
        if isinstance(s, ast.Continue):
            raise PyContinue()
        if isinstance(s, ast.Assign):
            v = self.eval(s.value, env)
            for t in s.targets:
                self.assign(t, v, env)
            return
        if isinstance(s, ast.Return):
            raise PyReturn(self.eval(s.value, env) if s.value is not None else VConst(None))
        if isinstance(s, ast.If) and self.try_ite_merge(s, env):
            return
        if isinstance(s, ast.If):
            if self.branch(self.truthy(self.eval(s.test, env)), "if@%d" % s.lineno):
                self.exec_block(s.body, env)
            else:
                self.exec_block(s.orelse, env)
            return
        if isinstance(s, ast.Assert):
            self.require(self.truthy(self.eval(s.test, env)), "AssertionError", s)
            return
        if isinstance(s, ast.Raise):
            if s.exc is None:
                raise Unsupported("bare raise at %d" % s.lineno)
            v = self.eval(s.exc, env)
            if not isinstance(v, VExc):
                raise Unsupported("raise of non-exception at %d" % s.lineno)
            v.node = s
            raise PyRaise(v)
        if isinstance(s, ast.Try):
            return self.exec_try(s, env)
        if isinstance(s, ast.With) and len(s.items) == 1 and s.items[0].optional_vars is None:
            # `with db:` - sqlite3's connection context manager: commit when the block completes, roll back (not
            # modelled) when it raises
            cm = self.eval(s.items[0].context_expr, env)
            if isinstance(cm, VOpt):
                self.require(Not(cm.is_none), "AttributeError", s)
                cm = cm.val
            if not isinstance(cm, VConn):
                raise Unsupported("with-statement over %r at %s:%d" % (cm, self.mod, s.lineno))
            try:
                self.exec_block(s.body, env)
            except PyRaise:
                raise Unsupported("exception inside `with <connection>:` (rollback is not modelled) at %s:%d" % (self.mod, s.lineno))
            from . import builtins as B
            B.call_bound(self, cm, "commit", [], {}, s)
            return
        if isinstance(s, ast.For):
            return self.exec_for(s, env)
        if isinstance(s, ast.FunctionDef):
            env[s.name] = VClosure(s, env, self.qual + ".<locals>." + s.name)
            return
        if isinstance(s, ast.Delete):
            for t in s.targets:
                self.delete(t, env)
            return
        if isinstance(s, ast.AugAssign):
            cur = self.eval(s.target, env)
            rhs = self.eval(s.value, env)
            v = self.binop(s.op, cur, rhs, s)
            self.assign(s.target, v, env)
            return
        raise Unsupported("statement %s at %s:%d" % (type(s).__name__, self.mod, s.lineno))

    def try_ite_merge(self, s, env):
        """`if c: x = <const|name>` (optionally with the same shape in else) on scalar
        values is executed as x = ite(c, v, x): no path split."""
        def simple(body):
            if len(body) != 1 or not isinstance(body[0], ast.Assign):
                return None
            a = body[0]
            if len(a.targets) != 1 or not isinstance(a.targets[0], ast.Name):
                return None
            if not isinstance(a.value, (ast.Constant, ast.Name)):
                return None
            return a.targets[0].id, a.value
        b = simple(s.body)
        if b is None:
            return False
        o = simple(s.orelse) if s.orelse else None
        if s.orelse and (o is None or o[0] != b[0]):
            return False
        name = b[0]
        if not s.orelse and name not in env:
            return False
        try:
            v1 = self.eval(b[1], env)
            v0 = self.eval(o[1], env) if o else env[name]
        except Unsupported:
            return False
        k1, k0 = kind_of(v1), kind_of(v0)
        if k1 != k0 or k1 not in ("str", "bool", "int", "real"):
            return False
        cond = self.truthy(self.eval(s.test, env))
        env[name] = VZ(If(cond, to_term(v1, k1), to_term(v0, k0)), k1)
        return True

    def exec_try(self, s, env):
        if s.finalbody or s.orelse:
            raise Unsupported("try/finally/else at %d" % s.lineno)

        def handler_names(h):
            if h.type is None:
                return ["Exception"]
            if isinstance(h.type, ast.Tuple):
                return [ast.unparse(x).split(".")[-1] for x in h.type.elts]
            return [ast.unparse(h.type).split(".")[-1]]
        if not hasattr(self, "try_stack"):
            self.try_stack = []
        self.try_stack.append([n for h in s.handlers for n in handler_names(h)])
        try:
            try:
                self.exec_block(s.body, env)
            finally:
                self.try_stack.pop()
        except PyRaise as e:
            for h in s.handlers:
                names = handler_names(h)
                if any(exc_matches(e.exc.cls, n) for n in names):
                    if h.name:
                        env[h.name] = e.exc
                    self.exec_block(h.body, env)
                    return
            raise

    # ------------------------------------------------------------- assignment
    def assign(self, t, v, env):
        if isinstance(t, ast.Name):
            env[t.id] = v
            return
        if isinstance(t, ast.Tuple):
            if isinstance(v, VTuple) and len(v.items) == len(t.elts):
                for tt, vv in zip(t.elts, v.items):
                    self.assign(tt, vv, env)
                return
            raise Unsupported("tuple assignment at %d" % t.lineno)
        if isinstance(t, ast.Attribute):
            obj = self.eval(t.value, env)
            if isinstance(obj, VRef):
                return self.store_field(obj, t.attr, v, t)
            raise Unsupported("attribute assignment on %r at %d" % (obj, t.lineno))
        if isinstance(t, ast.Subscript):
            obj = self.eval(t.value, env)
            key = self.eval(t.slice, env)
            if isinstance(obj, VMap) and isinstance(key, VConst):
                obj.d[key.py] = v
                return
            from .callbacks import VFrameMap, to_fv
            if isinstance(obj, VFrameMap) and isinstance(key, VConst):
                obj.t = Store(obj.t, S(key.py), to_fv(self, v, t))
                return
            if isinstance(obj, VDict):
                kt = self.scalar(key, "str", t)
                fld = "%s.%s" % (obj.cls, obj.field)
                arr = self.st.heap[fld]
                if not isinstance(v, VRef):
                    raise Unsupported("dict value at %d" % t.lineno)
                self.st.heap[fld] = Store(arr, obj.obj, Store(arr[obj.obj], kt, v.t))
                return
            if isinstance(obj, VListeners):
                # self._listeners[handle] = (send_f, stop_f): the callback contract
                # is checked at the registration site
                if not (isinstance(key, VRef) and isinstance(v, VTuple) and len(v.items) == 2):
                    raise Unsupported("listener registration at %d" % t.lineno)
                self.check_callbacks(key, v.items[0], v.items[1], t)
                arr = self.st.heap["Mailbox._listeners"]
                self.st.heap["Mailbox._listeners"] = Store(arr, obj.obj, Store(arr[obj.obj], key.t, True))
                return
            raise Unsupported("subscript assignment at %d" % t.lineno)
        raise Unsupported("assignment target %s" % type(t).__name__)

    def delete(self, t, env):
        if isinstance(t, ast.Name):
            env.pop(t.id, None)
            return
        if isinstance(t, ast.Subscript):
            obj = self.eval(t.value, env)
            key = self.eval(t.slice, env)
            if isinstance(obj, VDict):
                kt = self.scalar(key, "str", t)
                fld = "%s.%s" % (obj.cls, obj.field)
                arr = self.st.heap[fld]
                self.require(arr[obj.obj][kt] != 0, "KeyError", t)
                self.st.heap[fld] = Store(arr, obj.obj, Store(arr[obj.obj], kt, 0))
                return
        raise Unsupported("del target at %d" % t.lineno)

    # ------------------------------------------------------------------- heap
    def load_field(self, obj, attr, node):
        if obj.nullable:
            self.require(obj.t != 0, "AttributeError", node)
        if attr in H.CONFIG_FIELDS:
            if attr == "_db":
                return VConn("ch")
            if attr == "_usage_db":
                return VOpt(Not(H.CFG_USAGE), VConn("us"))
            if attr == "_blur_usage":
                return VOpt(H.CFG_BLUR_NONE, VZ(H.CFG_BLUR, "real"))
            if attr == "_allow_list":
                return VZ(H.CFG_ALLOW_LIST, "bool")
            if attr == "_log_requests":
                return VZ(H.CFG_LOG_REQUESTS, "bool")
            if attr == "_log_file":
                return VOpaque(JNULL)
        if obj.cls == "WebSocketServer" and attr == "factory":
            return VOpaque(JNULL)
        k = H.FIELDS.get(obj.cls, {}).get(attr)
        if k is None:
            # a method?
            return VBound(obj, attr)
        name = "%s.%s" % (obj.cls, attr)
        if k == "bool":
            return VZ(self.st.heap[name][obj.t], "bool")
        if k == "str":
            return VZ(self.st.heap[name][obj.t], "str")
        if k == "json":
            return VOpaque(self.st.heap[name][obj.t])
        if k == "str?":
            return VOpt(self.st.heap[name + ".isnone"][obj.t], VZ(self.st.heap[name][obj.t], "str"))
        if k == "listeners":
            return VListeners(obj.t)
        if k[0] == "ref":
            return VRef(self.st.heap[name][obj.t], k[1])
        if k[0] == "ref?":
            return VRef(self.st.heap[name][obj.t], k[1], nullable=True)
        if k[0] == "dict":
            return VDict(obj.cls, attr, obj.t, k[1])
        raise Unsupported("field %s" % name)

    def store_field(self, obj, attr, v, node):
        if obj.nullable:
            self.require(obj.t != 0, "AttributeError", node)
        if attr in H.CONFIG_FIELDS:
            # constructor copies of the server configuration: wiring obligation
            want = self.load_field(obj, attr, node)
            self.oblige("wiring.%s@%d" % (attr, node.lineno), self.veq(want, v, node), self.con.tags, node.lineno,
                        "wiring")
            return
        k = H.FIELDS.get(obj.cls, {}).get(attr)
        if k is None:
            if obj.cls == "WebSocketServer" and attr == "_reactor":
                return
            raise Unsupported("store to unknown field %s.%s at %d" % (obj.cls, attr, node.lineno))
        name = "%s.%s" % (obj.cls, attr)
        hp = self.st.heap
        if k in ("bool", "str"):
            hp[name] = Store(hp[name], obj.t, self.scalar(v, k, node))
        elif k == "str?":
            isn, t = to_opt(v, "str")
            hp[name + ".isnone"] = Store(hp[name + ".isnone"], obj.t, isn)
            hp[name] = Store(hp[name], obj.t, t)
        elif k == "json":
            hp[name] = Store(hp[name], obj.t, to_term(v, "json"))
        elif k == "listeners":
            if isinstance(v, VMap) and not v.d:
                hp[name] = Store(hp[name], obj.t, K(INT, BoolVal(False)))
            else:
                raise Unsupported("store to _listeners at %d" % node.lineno)
        elif k[0] in ("ref", "ref?"):
            if isinstance(v, VConst) and v.py is None:
                hp[name] = Store(hp[name], obj.t, 0)
            elif isinstance(v, VRef):
                hp[name] = Store(hp[name], obj.t, v.t)
            else:
                raise Unsupported("store of %r to %s at %d" % (v, name, node.lineno))
        elif k[0] == "dict":
            if isinstance(v, VMap) and not v.d:
                hp[name] = Store(hp[name], obj.t, K(Str, IntVal(0)))
            else:
                raise Unsupported("store to dict field at %d" % node.lineno)
        else:
            raise Unsupported("store field kind %r" % (k,))

    def check_callbacks(self, handle, send_f, stop_f, node):
        from . import callbacks
        callbacks.check_registration(self, handle, send_f, stop_f, node)

    # ------------------------------------------------------------ expressions
    def scalar(self, v, kind, node):
        """z3 term of `kind`; a possibly-None value is a TypeError obligation."""
        if isinstance(v, VOpt):
            self.require(Not(v.is_none), "TypeError", node)
            v = v.val
        return to_term(v, kind)

    def truthy(self, v):
        if isinstance(v, VConst):
            return BoolVal(bool(v.py))
        if isinstance(v, VUnknownColl):
            return fresh("opaque.truthy", BOOL)
        if isinstance(v, VZ):
            if v.kind == "bool":
                return v.t
            if v.kind == "str":
                return v.t != EMPTY
            if v.kind in ("int", "real"):
                return v.t != 0
            if v.kind == "json":
                raise Unsupported("truthiness of opaque JSON")
        if isinstance(v, VRef):
            return v.t != 0 if v.nullable else BoolVal(True)
        if isinstance(v, VOpt):
            return And(Not(v.is_none), self.truthy(v.val))
        if isinstance(v, (VRow, VConn, VNamed, VClosure, VBound)):
            return BoolVal(True)
        if isinstance(v, VRowList):
            return v.n > 0
        if isinstance(v, VList):
            return v.n > 0
        if isinstance(v, VBag):
            return v.nonempty
        if isinstance(v, VSet):
            return EX([sort_of(v.kind)], lambda x: v.mem[x])
        if isinstance(v, VDict):
            m = self.st.heap["%s.%s" % (v.cls, v.field)][v.obj]
            return EX([Str], lambda k: m[k] != 0)
        if isinstance(v, VListeners):
            ls = self.st.heap["Mailbox._listeners"][v.obj]
            return EX([INT], lambda h: ls[h])
        if isinstance(v, VMap):
            return BoolVal(bool(v.d))
        if isinstance(v, VTuple):
            return BoolVal(bool(v.items))
        raise Unsupported("truthiness of %r" % (v,))

    def veq(self, a, b, node):
        """Python == on scalars/optionals -> Bool term"""
        if isinstance(a, VConn) and isinstance(b, VConn):
            return BoolVal(a.which == b.which)
        if isinstance(a, VOpt) and isinstance(a.val, VConn):
            if isinstance(b, VOpt) and isinstance(b.val, VConn):
                return And(a.is_none == b.is_none, BoolVal(a.val.which == b.val.which))
            if isinstance(b, VConst) and b.py is None:
                return a.is_none
            if isinstance(b, VConn):
                return And(Not(a.is_none), BoolVal(a.val.which == b.which))
            return BoolVal(False)
        if isinstance(a, VConst) and isinstance(b, VConst):
            return BoolVal(a.py == b.py)
        if isinstance(a, VRef) and isinstance(b, VRef):
            return a.t == b.t
        if isinstance(a, VRef) and isinstance(b, VConst) and b.py is None:
            return a.t == 0
        if isinstance(b, VRef) and isinstance(a, VConst) and a.py is None:
            return b.t == 0
        if isinstance(a, VOpaque) and isinstance(b, VOpaque):
            return a.t == b.t
        ka, kb = kind_of(a), kind_of(b)
        if ka == "opt" or kb == "opt":
            ia, ta, k = self._optparts(a, b)
            ib, tb, _ = self._optparts(b, a)
            return And(ia == ib, Implies(Not(ia), ta == tb))
        if ka == "none" or kb == "none":
            return BoolVal(ka == kb)
        k = ka
        if ka != kb:
            if {ka, kb} <= {"int", "real", "bool"}:
                k = "real"
            elif "json" in (ka, kb):
                k = "json"
            else:
                return BoolVal(False)
        return to_term(a, k) == to_term(b, k)

    def _optparts(self, a, other):
        k = kind_of(other.val) if isinstance(other, VOpt) else kind_of(other)
        if isinstance(a, VOpt):
            k2 = kind_of(a.val)
            if k2 != "none":
                k = k2
        if k in ("none", "opt"):
            k = "str"
        isn, t = to_opt(a, k)
        return isn, t, k

    def eval_raw(self, e, env):
        m = getattr(self, "e_" + type(e).__name__, None)
        if m is None:
            raise Unsupported("expression %s at %s:%d" % (type(e).__name__, self.mod, e.lineno))
        return m(e, env)

    def eval(self, e, env):
        v = self.eval_raw(e, env)
        if isinstance(v, VAcc):
            return v.cur
        return v

    def e_Constant(self, e, env):
        return VConst(e.value)

    def e_Name(self, e, env):
        if e.id in env:
            return env[e.id]
        if e.id in self.modconsts and not callable(self.modconsts[e.id]):
            return VConst(self.modconsts[e.id])
        if e.id in MODULE_NAMES:
            return VModule(e.id)
        if e.id in BUILTIN_FUNCS:
            return VFunc(e.id)
        if e.id in NAMED_TUPLES or e.id in EXC_CLASSES or e.id in HEAP_CLASSES:
            return VClass(e.id)
        if e.id == "Exception":
            return VClass("Exception")
        if ".<locals>." in self.qual:
            # a free variable of a closure that its contract does not declare, assigned in the enclosing function:
            # some number or None (what the enclosing function computed is not known here)
            try:
                outer = self.src.func(self.qual.split(".<locals>.")[0])
            except Exception:
                outer = None
            if outer is not None and any(isinstance(n, ast.Name) and n.id == e.id and isinstance(n.ctx, ast.Store)
                                         for n in ast.walk(outer)):
                return VOpt(Const("free.%s.isnone" % e.id, BOOL), VZ(Const("free.%s" % e.id, REAL), "real"))
        try:
            fd = self.src.func("%s.%s" % (self.mod, e.id))      # a module-level helper function: executed in place
        except Exception:
            fd = None
        if fd is not None and not fd.args.vararg and not fd.args.kwarg:
            return VClosure(fd, {}, "%s.%s" % (self.mod, e.id))
        raise Unsupported("unknown name %s at %d" % (e.id, e.lineno))

    def e_Tuple(self, e, env):
        return VTuple([self.eval(x, env) for x in e.elts])

    def e_List(self, e, env):
        items = [self.eval(x, env) for x in e.elts]
        if not items:
            return VAcc(VList(IntVal(0), lambda i: VConst(None)))
        raise Unsupported("non-empty list literal at %d" % e.lineno)

    def e_Dict(self, e, env):
        d = {}
        for k, v in zip(e.keys, e.values):
            kk = self.eval(k, env)
            if not isinstance(kk, VConst):
                raise Unsupported("dict literal key at %d" % e.lineno)
            d[kk.py] = self.eval(v, env)
        return VMap(d)

    def e_Attribute(self, e, env):
        obj = self.eval_raw(e.value, env)
        a = e.attr
        if isinstance(obj, VAcc):
            if a in ("add", "append"):
                return VBound(obj, a)
            obj = obj.cur
        if isinstance(obj, VRef):
            return self.load_field(obj, a, e)
        if isinstance(obj, VOpaque) and a == "server":
            return VRef(H.SERVER, "Server")
        if isinstance(obj, VNamed):
            return obj.fields[a]
        if isinstance(obj, VExc):
            if a not in obj.fields:
                if a == "args":
                    return VTuple([])
                self.require(BoolVal(False), "AttributeError", e)
                raise Unsupported("exception object has no attribute %s at %d" % (a, e.lineno))
            return obj.fields[a]
        if isinstance(obj, VCursor) and a == "lastrowid":
            return VZ(obj.lastrowid, "int")
        if isinstance(obj, VOpt):
            self.require(Not(obj.is_none), "AttributeError", e)
            return self._attr_of(obj.val, a, e)
        return self._attr_of(obj, a, e)

    def _attr_of(self, obj, a, e):
        if isinstance(obj, VConst) and isinstance(obj.py, str) and a in ("format", "join", "upper", "lower", "strip"):
            return VBound(obj, a)
        if isinstance(obj, VZ) and obj.kind == "str":
            return VBound(obj, a)
        if isinstance(obj, (VModule, VConn, VCursor, VSet, VList, VDict, VListeners, VMsg, VRow, VBag, VMap, VUnknownColl)):
            return VBound(obj, a)
        raise Unsupported("attribute %s of %r at %d" % (a, obj, e.lineno))

    def e_JoinedStr(self, e, env):
        parts = []
        for v in e.values:
            if isinstance(v, ast.Constant):
                parts.append(v.value)
            else:
                x = self.eval(v.value, env)
                if not isinstance(x, VConst):
                    return VZ(fresh("formatted", Str), "str")     # some string (see `%` formatting)
                parts.append(format(x.py))
        return VConst("".join(str(p) for p in parts))

    def e_Subscript(self, e, env):
        obj = self.eval(e.value, env)
        if isinstance(e.slice, ast.Slice):
            sl = e.slice
            lo = self.eval(sl.lower, env) if sl.lower is not None else VConst(0)
            hi = self.eval(sl.upper, env) if sl.upper is not None else None
            if sl.step is not None or not isinstance(obj, (VList, VRowList)) or not isinstance(lo, VConst) \
                    or not isinstance(lo.py, int) or lo.py < 0 \
                    or (hi is not None and not (isinstance(hi, VConst) and isinstance(hi.py, int) and hi.py >= 0)):
                raise Unsupported("slice at %d" % e.lineno)
            a = IntVal(lo.py)
            end = obj.n if hi is None else If(obj.n < hi.py, obj.n, IntVal(hi.py))
            n2 = If(end - a > 0, end - a, IntVal(0))
            if lo.py == 0:
                return VList(n2, lambda i, obj=obj: obj.at(i))
            return VList(n2, lambda i, obj=obj, a=a: obj.at(i + a))
        key = self.eval(e.slice, env)
        if isinstance(obj, VOpt):
            self.require(Not(obj.is_none), "TypeError", e)
            obj = obj.val
        if isinstance(obj, VRow):
            if not (isinstance(key, VConst) and isinstance(key.py, str)):
                raise Unsupported("row key at %d" % e.lineno)
            if obj.view is not None:
                if key.py not in obj.view:
                    self.require(BoolVal(False), "KeyError", e)
                    raise Unsupported("row has no column %s at %d" % (key.py, e.lineno))
                t_, r_, c_ = obj.view[key.py]
                return t_.value(c_, r_)
            if not obj.tbl.sch.has(key.py):
                self.require(BoolVal(False), "KeyError", e)
                raise Unsupported("row has no column %s at %d" % (key.py, e.lineno))
            return obj.tbl.value(key.py, obj.rid)
        if isinstance(obj, VMsg):
            self.require(obj.has(key.py), "KeyError", e)
            return obj.val(key.py)
        if isinstance(obj, VMap):
            if key.py not in obj.d:
                self.require(BoolVal(False), "KeyError", e)
            return obj.d[key.py]
        if isinstance(obj, VTuple):
            return obj.items[key.py]
        if isinstance(obj, VList):
            if isinstance(key, VConst) and isinstance(key.py, int) and key.py >= 0:
                self.require(obj.n > key.py, "IndexError", e)
                return obj.at(IntVal(key.py))
            if isinstance(key, VConst) and isinstance(key.py, int) and key.py < 0:
                self.require(obj.n >= -key.py, "IndexError", e)
                return obj.at(obj.n + IntVal(key.py))
            raise Unsupported("list index at %d" % e.lineno)
        if isinstance(obj, VDict):
            kt = self.scalar(key, "str", e)
            m = self.st.heap["%s.%s" % (obj.cls, obj.field)][obj.obj]
            self.require(m[kt] != 0, "KeyError", e)
            return VRef(m[kt], obj.valcls)
        raise Unsupported("subscript of %r at %d" % (obj, e.lineno))

    def e_UnaryOp(self, e, env):
        v = self.eval(e.operand, env)
        if isinstance(e.op, ast.Not):
            t = self.truthy(v)
            return VZ(Not(t), "bool")
        if isinstance(e.op, ast.USub):
            if isinstance(v, VConst):
                return VConst(-v.py)
            k = kind_of(v)
            return VZ(-to_term(v, k), k)
        raise Unsupported("unary op at %d" % e.lineno)

    def e_BoolOp(self, e, env):
        # value-returning and/or with short-circuit: the value of the deciding operand, as in Python
        if isinstance(e.op, ast.Or):
            for x in e.values[:-1]:
                v = self.eval(x, env)
                if self.branch(self.truthy(v), "or@%d" % e.lineno):
                    return v
            return self.eval(e.values[-1], env)
        for x in e.values[:-1]:
            v = self.eval(x, env)
            if not self.branch(self.truthy(v), "and@%d" % e.lineno):
                return v
        return self.eval(e.values[-1], env)

    def e_IfExp(self, e, env):
        if self.branch(self.truthy(self.eval(e.test, env)), "ifexp@%d" % e.lineno):
            return self.eval(e.body, env)
        return self.eval(e.orelse, env)

    def e_BinOp(self, e, env):
        a = self.eval(e.left, env)
        b = self.eval(e.right, env)
        return self.binop(e.op, a, b, e)

    def binop(self, op, a, b, e):
        if isinstance(a, VConst) and isinstance(b, VConst):
            fn = {ast.Add: lambda x, y: x + y, ast.Sub: lambda x, y: x - y, ast.Mult: lambda x, y: x * y,
                  ast.Pow: lambda x, y: x ** y, ast.FloorDiv: lambda x, y: x // y, ast.Mod: lambda x, y: x % y,
                  ast.Div: lambda x, y: x / y}.get(type(op))
            if fn is None:
                raise Unsupported("constant binop at %d" % e.lineno)
            return VConst(fn(a.py, b.py))
        if isinstance(op, ast.Mod) and isinstance(a, VConst) and isinstance(a.py, str):
            if a.py == "%d":
                return VZ(dec(self.scalar(b, "int", e)), "str")
            # any other format string: some string (what it is exactly matters to no contract: log lines, error texts)
            return VZ(fresh("formatted", Str), "str")
        ka = kind_of(a.val) if isinstance(a, VOpt) else kind_of(a)
        kb = kind_of(b.val) if isinstance(b, VOpt) else kind_of(b)
        if ka not in ("int", "real", "bool") or kb not in ("int", "real", "bool"):
            raise Unsupported("binop on %s,%s at %d" % (ka, kb, e.lineno))
        k = "int" if (ka in ("int", "bool") and kb in ("int", "bool")) else "real"
        x, y = self.scalar(a, k, e), self.scalar(b, k, e)
        if isinstance(op, ast.Add):
            return VZ(x + y, k)
        if isinstance(op, ast.Sub):
            return VZ(x - y, k)
        if isinstance(op, ast.Mult):
            return VZ(x * y, k)
        if isinstance(op, ast.FloorDiv):
            # x // y for y > 0 by its definition: the integer q with y*q <= x < y*q + y
            self.require(y != 0, "ZeroDivisionError", e)
            if k == "int":
                q = fresh("fdiv", INT)
                self.assume(Implies(y > 0, And(y * q <= x, x < y * q + y)))
                self.assume(Implies(y < 0, And(y * q >= x, x > y * q + y)))
                return VZ(q, "int")
            q = fresh("fdiv", INT)
            self.assume(Implies(y > 0, And(y * z3.ToReal(q) <= x, x < y * z3.ToReal(q) + y)))
            self.assume(Implies(y < 0, And(y * z3.ToReal(q) >= x, x > y * z3.ToReal(q) + y)))
            return VZ(z3.ToReal(q), "real")
        if isinstance(op, ast.Mod):
            # x % y = x - y * (x // y)  (Python: the result has the sign of y)
            self.require(y != 0, "ZeroDivisionError", e)
            q = fresh("fdiv", INT)
            qq = q if k == "int" else z3.ToReal(q)
            self.assume(Implies(y > 0, And(y * qq <= x, x < y * qq + y)))
            self.assume(Implies(y < 0, And(y * qq >= x, x > y * qq + y)))
            return VZ(x - y * qq, k)
        if isinstance(op, ast.Div):
            self.require(y != 0, "ZeroDivisionError", e)
            xr = z3.ToReal(x) if k == "int" else x
            yr = z3.ToReal(y) if k == "int" else y
            return VZ(xr / yr, "real")
        raise Unsupported("binop %s at %d" % (type(op).__name__, e.lineno))

    def e_Compare(self, e, env):
        left = self.eval(e.left, env)
        res = []
        for op, rn in zip(e.ops, e.comparators):
            right = self.eval(rn, env)
            res.append(self.compare(op, left, right, e))
            left = right
        return VZ(conj(res), "bool")

    def compare(self, op, a, b, e):
        if isinstance(op, (ast.Is, ast.IsNot)):
            if isinstance(b, VConst) and b.py is None:
                if isinstance(a, VOpt):
                    t = a.is_none
                elif isinstance(a, VRef):
                    t = (a.t == 0) if a.nullable else BoolVal(False)
                elif isinstance(a, VConst):
                    t = BoolVal(a.py is None)
                else:
                    t = BoolVal(False)
                return t if isinstance(op, ast.Is) else Not(t)
            if isinstance(b, VConst) and isinstance(b.py, bool):
                # x is True / x is False: identity with the singleton, i.e. x is a bool with that value
                if isinstance(a, VOpt):
                    a_none, a = a.is_none, a.val
                else:
                    a_none = BoolVal(False)
                if isinstance(a, VConst):
                    t = BoolVal(a.py is b.py)
                elif isinstance(a, VZ) and a.kind == "bool":
                    t = And(Not(a_none), a.t == BoolVal(b.py))
                elif isinstance(a, VZ):
                    t = BoolVal(False)
                else:
                    raise Unsupported("`is` with a bool at %d" % e.lineno)
                return t if isinstance(op, ast.Is) else Not(t)
            raise Unsupported("`is` with non-None at %d" % e.lineno)
        if isinstance(op, ast.Eq):
            return self.veq(a, b, e)
        if isinstance(op, ast.NotEq):
            return Not(self.veq(a, b, e))
        if isinstance(op, (ast.In, ast.NotIn)):
            t = self.contains(b, a, e)
            return t if isinstance(op, ast.In) else Not(t)
        if isinstance(op, (ast.Lt, ast.LtE, ast.Gt, ast.GtE)):
            if isinstance(a, VConst) and isinstance(b, VConst):
                return BoolVal({ast.Lt: a.py < b.py, ast.LtE: a.py <= b.py, ast.Gt: a.py > b.py,
                                ast.GtE: a.py >= b.py}[type(op)])
            ka = kind_of(a.val) if isinstance(a, VOpt) else kind_of(a)
            kb = kind_of(b.val) if isinstance(b, VOpt) else kind_of(b)
            k = "int" if (ka == "int" and kb == "int") else "real"
            x, y = self.scalar(a, k, e), self.scalar(b, k, e)
            return {ast.Lt: x < y, ast.LtE: x <= y, ast.Gt: x > y, ast.GtE: x >= y}[type(op)]
        raise Unsupported("comparison at %d" % e.lineno)

    def contains(self, coll, x, e):
        if isinstance(coll, VUnknownColl):
            return fresh("opaque.in", BOOL)
        if isinstance(coll, VMsg):
            return coll.has(x.py)
        if isinstance(coll, VMap):
            return BoolVal(x.py in coll.d)
        if isinstance(coll, VSet):
            return coll.mem[self.scalar(x, coll.kind, e)]
        if isinstance(coll, VBag):
            return coll.contains(self.scalar(x, coll.kind, e))
        if isinstance(coll, VDict):
            kt = self.scalar(x, "str", e)
            return self.st.heap["%s.%s" % (coll.cls, coll.field)][coll.obj][kt] != 0
        if isinstance(coll, VList):
            k = kind_of(x)
            xt = to_term(x, k)
            return EX([INT], lambda i: And(0 <= i, i < coll.n, self.veq(coll.at(i), VZ(xt, k), e)))
        raise Unsupported("`in` on %r at %d" % (coll, e.lineno))

    # comprehensions -----------------------------------------------------------
    def e_ListComp(self, e, env):
        return self.comprehension(e, env)

    def e_GeneratorExp(self, e, env):
        return self.comprehension(e, env)

    def comprehension(self, e, env):
        if len(e.generators) != 1:
            raise Unsupported("nested comprehension at %d" % e.lineno)
        g = e.generators[0]
        itv = self.eval(g.iter, env)
        if isinstance(itv, VCursor):
            from .loops import cursor_sequence
            seq = cursor_sequence(self, itv, e)
        else:
            seq = self.as_sequence(itv, e)
        i = fresh("ci", INT)
        env2 = dict(env)
        nobl = len(self.p.obls)
        npc = len(self.p.pc)
        self.assume(And(0 <= i, i < seq.n))
        self.assign(g.target, seq.at(i), env2)
        conds = [self.truthy(self.eval(c, env2)) for c in g.ifs]
        for c in conds:
            self.assume(c)
        elt = self.eval(e.elt, env2)
        # facts assumed while evaluating under the symbolic index are local
        local = self.p.pc[npc:]
        del self.p.pc[npc:]
        for o in self.p.obls[nobl:]:
            o.extra_hyps = list(local[:max(0, o.nhyps - npc)]) + o.extra_hyps
            o.nhyps = min(o.nhyps, npc)
        cond = conj(conds)
        if not conds:
            n = seq.n

            def elem(k, elt=elt, i=i):
                return vsubst(elt, i, k)
            res = VList(n, elem)
            if hasattr(seq, "map") and isinstance(elt, VZ) and elt.kind == "int":
                # summand as a function of the dict value: G[M] = elt with the element replaced by M
                et = seq.at(i).t
                M = bound(INT, "M")
                body = z3.substitute(elt.t, (et, M))
                if not _mentions(body, i):
                    G = fresh("summand", ArraySort(INT, INT))
                    self.assume(z3.ForAll([M], G[M] == body, patterns=[G[M]]))
                    res.dict_src = (seq.map, G)
            return res
        k = kind_of(elt.val) if isinstance(elt, VOpt) else kind_of(elt)
        if k not in ("str", "int", "real", "bool", "json"):
            # a filtered list of structured elements: out[j] = elt(src[j]) with src strictly increasing
            # over exactly the indices that pass the filter (the semantics of a comprehension)
            n2 = fresh("filt.n", INT)
            src = fresh("filt.src", ArraySort(INT, INT))
            pos = fresh("filt.pos", ArraySort(INT, INT))
            self.assume(And(n2 >= 0, n2 <= seq.n))
            self.assume((n2 > 0) == EX([INT], lambda x: And(0 <= x, x < seq.n, z3.substitute(cond, (i, x)))))
            self.assume(FA([INT], lambda j: Implies(And(0 <= j, j < n2), And(0 <= src[j], src[j] < seq.n,
                                                                               z3.substitute(cond, (i, src[j])), pos[src[j]] == j)),
                           pats=lambda j: [src[j]]))
            self.assume(FA([INT, INT], lambda j, l: Implies(And(0 <= j, j < l, l < n2), src[j] < src[l])))
            self.assume(FA([INT], lambda x: Implies(And(0 <= x, x < seq.n, z3.substitute(cond, (i, x))),
                                                    And(0 <= pos[x], pos[x] < n2, src[pos[x]] == x)), pats=lambda x: [pos[x]]))
            return VList(n2, lambda j, elt=elt, i=i: vsubst(elt, i, src[j]))
        if isinstance(elt, VOpt):
            # elements that pass the filter and are None cannot equal a scalar
            def contains(y, elt=elt, i=i, cond=cond, seq=seq, k=k):
                return EX([INT], lambda j: And(0 <= j, j < seq.n, z3.substitute(cond, (i, j)),
                                               Not(z3.substitute(elt.is_none, (i, j))),
                                               z3.substitute(to_term(elt.val, k), (i, j)) == y))
        else:
            def contains(y, elt=elt, i=i, cond=cond, seq=seq, k=k):
                return EX([INT], lambda j: And(0 <= j, j < seq.n, z3.substitute(cond, (i, j)),
                                               z3.substitute(to_term(elt, k), (i, j)) == y))
        nonempty = EX([INT], lambda j: And(0 <= j, j < seq.n, z3.substitute(cond, (i, j))))
        bag = VBag(k, contains, nonempty)
        bag.bound = seq.n
        bag.const_elt = e_const(e.elt)
        return bag

    def as_sequence(self, v, node):
        """indexable view (n, at(i)) of an iterable; may add enumeration facts"""
        if isinstance(v, (VRowList, VList)):
            return v
        if isinstance(v, VDict):
            from .builtins import dict_keys
            v = dict_keys(self, v)
        if isinstance(v, VSet):
            n = fresh("enum.n", INT)
            en = fresh("enum", ArraySort(INT, sort_of(v.kind)))
            pos = fresh("enum.pos", ArraySort(sort_of(v.kind), INT))
            self.assume(n >= 0)
            self.assume(FA([INT], lambda i: Implies(And(0 <= i, i < n), And(v.mem[en[i]], pos[en[i]] == i)),
                           pats=lambda i: [en[i]]))
            self.assume(FA([sort_of(v.kind)], lambda y: Implies(v.mem[y], And(0 <= pos[y], pos[y] < n,
                                                                                en[pos[y]] == y)),
                           pats=lambda y: [pos[y], v.mem[y]]))
            lst = VList(n, lambda i: VZ(en[i], v.kind))
            lst.pos = pos
            lst.from_set = v
            return lst
        if isinstance(v, VBag):
            # a list known only through its membership (filtered comprehension, list(set)): some enumeration of
            # exactly its members; order and multiplicity are left open (duplicates allowed), the length only
            # bounded by the source's.  An over-approximation of the list the code builds.
            srt = sort_of(v.kind)
            n = fresh("bagenum.n", INT)
            en = fresh("bagenum", ArraySort(INT, srt))
            pos = fresh("bagenum.pos", ArraySort(srt, INT))
            self.assume(n >= 0)
            self.assume((n > 0) == v.nonempty)
            if getattr(v, "bound", None) is not None:
                self.assume(n <= v.bound)
            self.assume(FA([INT], lambda i: Implies(And(0 <= i, i < n), v.contains(en[i])), pats=lambda i: [en[i]]))
            self.assume(FA([srt], lambda y: Implies(v.contains(y), And(0 <= pos[y], pos[y] < n, en[pos[y]] == y)),
                           pats=lambda y: [pos[y]]))
            return VList(n, lambda i: VZ(en[i], v.kind))
        if isinstance(v, VConst) and isinstance(v.py, range):
            r = v.py
            if r.step != 1:
                raise Unsupported("range step")
            lst = VList(IntVal(max(0, r.stop - r.start)), lambda i: VZ(IntVal(r.start) + i, "int"))
            lst.range_bounds = (IntVal(r.start), IntVal(r.stop))
            return lst
        raise Unsupported("iteration over %r at %d" % (v, getattr(node, "lineno", 0)))

    # calls --------------------------------------------------------------------
    def e_Call(self, e, env):
        # log.* : skipped, arguments not evaluated (A12)
        if isinstance(e.func, ast.Attribute) and isinstance(e.func.value, ast.Name) \
                and e.func.value.id == "log" and "log" not in env:
            # log.* has no effect (A12), but computing its arguments can raise: they are evaluated where the engine
            # can evaluate them (an unsupported expression there is skipped, not a reason to give up the function)
            for a_ in list(e.args) + [k_.value for k_ in e.keywords]:
                try:
                    self.eval(a_, env)
                except Unsupported:
                    pass        # (what was evaluated before the unsupported sub-expression stands)
            return VConst(None)
        root = e.func
        while isinstance(root, ast.Attribute):
            root = root.value
        if isinstance(root, ast.Name) and root.id in ("websocket", "service") and root.id not in env:
            return VConst(None)      # base-class constructors / methods of Twisted and Autobahn (A10)
        f = self.eval(e.func, env)
        if isinstance(f, VFunc) and f.name == "isinstance":
            return self.do_isinstance(e, env)
        args = [self.eval(a, env) for a in e.args]
        kwargs = {}
        for k in e.keywords:
            if k.arg is None:
                raise Unsupported("**kwargs call at %d" % e.lineno)
            kwargs[k.arg] = self.eval(k.value, env)
        return self.call(f, args, kwargs, e, env)

    def do_isinstance(self, e, env):
        v = self.eval(e.args[0], env)
        tn = ast.unparse(e.args[1])
        if tn in ('type("")', "type('')", "str"):
            if isinstance(v, VZ):
                return VConst(v.kind == "str")
            if isinstance(v, VConst):
                return VConst(isinstance(v.py, str))
            if isinstance(v, VOpt):
                if isinstance(v.val, VZ) and v.val.kind == "str":
                    return VZ(Not(v.is_none), "bool")
            raise Unsupported("isinstance str of %r at %d" % (v, e.lineno))
        if tn in NAMED_TUPLES:
            return VConst(isinstance(v, VNamed) and v.name == tn)
        raise Unsupported("isinstance(%s) at %d" % (tn, e.lineno))

    def call(self, f, args, kwargs, e, env):
        from . import builtins as B
        if isinstance(f, VBound):
            recv = f.recv
            if isinstance(recv, VAcc):
                from . import loops
                return loops.acc_call(self, recv, f.name, args, e)
            if isinstance(recv, VRef):
                return self.call_method(recv, f.name, args, kwargs, e)
            return B.call_bound(self, recv, f.name, args, kwargs, e)
        if isinstance(f, VFunc):
            return B.call_func(self, f.name, args, kwargs, e)
        if isinstance(f, VClass):
            return self.construct(f.name, args, kwargs, e)
        if isinstance(f, VClosure):
            return self.call_closure(f, args, kwargs, e)
        if isinstance(f, VCallback):
            from . import callbacks
            return callbacks.call(self, f, args, e)
        raise Unsupported("call of %r at %d" % (f, e.lineno))

    def call_closure(self, f, args, kwargs, e):
        fd = f.fdef
        env2 = dict(f.env)   # closures read the enclosing variables
        names = [a.arg for a in fd.args.args]
        if len(args) != len(names) or kwargs:
            raise Unsupported("closure call arity at %d" % e.lineno)
        for n, v in zip(names, args):
            env2[n] = v
        try:
            self.exec_block(fd.body, env2)
        except PyReturn as r:
            return r.v
        return VConst(None)

    def construct(self, name, args, kwargs, e):
        if name in NAMED_TUPLES:
            fields = dict(zip(NAMED_TUPLES[name], args))
            fields.update(kwargs)
            if set(fields) != set(NAMED_TUPLES[name]):
                raise Unsupported("namedtuple fields at %d" % e.lineno)
            return VNamed(name, fields)
        if name in EXC_CLASSES or name == "Exception":
            fields = {}
            if name == "Error":
                fields["_explain"] = args[0]
            return VExc(name, fields, e)
        if name in HEAP_CLASSES:
            return self.allocate(name, args, kwargs, e)
        raise Unsupported("constructor %s at %d" % (name, e.lineno))

    def allocate(self, cls, args, kwargs, e):
        ref = fresh("new." + cls, INT)
        self.assume(ref != 0)
        self.assume(Not(self.st.alloc[ref]))
        self.assume(H.cls_of(ref) == S(cls))
        self.st.alloc = Store(self.st.alloc, ref, True)
        init = self.src.func("server.%s.__init__" % cls)
        names = [a.arg for a in init.args.args]
        env2 = {names[0]: VRef(ref, cls)}
        for n, v in zip(names[1:], args):
            env2[n] = v
        env2.update(kwargs)
        if len(env2) != len(names):
            raise Unsupported("constructor arity %s at %d" % (cls, e.lineno))
        self.exec_block(init.body, env2)
        return VRef(ref, cls)

    def inline_call(self, fd, qual, recv, args, kwargs, e):
        depth = getattr(self, "inline_depth", 0)
        if depth >= 3:
            raise Unsupported("nested calls to functions without contract deeper than 3 (at %s:%d)" % (self.mod, e.lineno))
        if fd.args.vararg or fd.args.kwarg or fd.args.kwonlyargs:
            raise Unsupported("variadic helper %s" % qual)
        names = [a.arg for a in fd.args.args]
        env2 = {names[0]: recv}
        for n, v in zip(names[1:], args):
            env2[n] = v
        for k, v in kwargs.items():
            if k not in names or k in env2:
                self.require(BoolVal(False), "TypeError", e)
                raise Unsupported("bad keyword argument calling %s at %d" % (qual, e.lineno))
            env2[k] = v
        defaults = fd.args.defaults
        for n, dnode in zip(names[len(names) - len(defaults):], defaults):
            if n not in env2:
                env2[n] = self.eval(dnode, {})
        if len(env2) != len(names):
            self.require(BoolVal(False), "TypeError", e)
            raise Unsupported("arity mismatch calling %s at %d" % (qual, e.lineno))
        self.inline_depth = depth + 1
        try:
            self.exec_block(fd.body, env2)
        except PyReturn as r:
            return r.v if r.v is not None else VConst(None)
        finally:
            self.inline_depth = depth
        return VConst(None)

    # calls to functions under contract ------------------------------------------
    def call_method(self, recv, name, args, kwargs, e):
        if recv.nullable:
            self.require(recv.t != 0, "AttributeError", e)
        mod = {"Mailbox": "server", "AppNamespace": "server", "Server": "server",
               "WebSocketServer": "server_websocket"}[recv.cls]
        qual = "%s.%s.%s" % (mod, recv.cls, name)
        if recv.cls == "WebSocketServer" and name == "sendMessage":
            from . import callbacks
            return callbacks.send_message(self, recv, args, e)
        if recv.cls == "WebSocketServer" and name == "send" and self.qual != qual:
            from . import callbacks
            return callbacks.apply_send(self, recv, args, kwargs, e)
        if qual not in REGISTRY:
            # a method without a contract of its own (e.g. a helper a refactoring extracted): executed in place
            try:
                fd = self.src.func(qual)
            except Exception:
                raise Unsupported("call to %s which has no contract (at %s:%d)" % (qual, self.mod, e.lineno))
            return self.inline_call(fd, qual, recv, args, kwargs, e)
        return self.apply_contract(REGISTRY[qual], recv, args, kwargs, e)

    def bind_args(self, con, args, kwargs, e):
        fd = self.src.func(con.qual)
        names = [a.arg for a in fd.args.args]
        if con.cls:
            names = names[1:]
        defaults = fd.args.defaults
        vals = {}
        for n, v in zip(names, args):
            vals[n] = v
        for k, v in kwargs.items():
            if k not in names:
                raise Unsupported("unexpected keyword %s at %d" % (k, e.lineno))
            vals[k] = v
        nd = len(defaults)
        for n, d in zip(names[len(names) - nd:], defaults):
            if n not in vals:
                vals[n] = self.eval(d, {})
        if set(vals) != set(names):
            raise Unsupported("arity mismatch calling %s at %d" % (con.qual, e.lineno))
        if fd.args.kwarg or fd.args.vararg:
            raise Unsupported("variadic callee %s" % con.qual)
        return vals

    def apply_contract(self, con, recv, args, kwargs, e):
        try:
            return self._apply_contract(con, recv, args, kwargs, e)
        except (AttributeError, TypeError, KeyError) as ex_:
            short = con.qual.split(".", 1)[1]
            # the arguments do not have the shapes the callee's contract is stated for
            tags = [t for t in getattr(con, "tags", []) if t in self.con.tags] or self.con.tags
            self.oblige("call@%d.%s.requires.argument_shapes" % (e.lineno, short), BoolVal(False), tags,
                        e.lineno, "requires")
            raise Unsupported("contract of %s not applicable to these arguments at %s:%d (%s: %s)" % (
                con.qual, self.mod, e.lineno, type(ex_).__name__, ex_))

    def _apply_contract(self, con, recv, args, kwargs, e):
        vals = self.bind_args(con, args, kwargs, e)
        # coerce arguments to the declared parameter shapes
        for n, spec in con.params.items():
            vals[n] = self.coerce_arg(vals[n], spec, e)
        for n, spec in con.params.items():
            if spec.startswith("callback:"):
                # a closure handed to a data structure: verified here against the callback contract
                _, which, hname = spec.split(":")
                cb = REGISTRY["callback.listener"]
                if isinstance(vals[n], VClosure):
                    cb.check_closure(self, which, vals[hname], vals[n], e)
                elif not (isinstance(vals[n], VCallback) and vals[n].which == which and vals[n].handle.eq(vals[hname].t)):
                    self.oblige("call@%d.registers.%s_f" % (e.lineno, which), BoolVal(False), ["C02", "C01"], e.lineno, "callback")
        pre = self.st.copy()
        self_ref = recv.t if recv is not None else None
        c = Ctx(pre, pre, vals, self_ref, con.cls)
        short = con.qual.split(".", 1)[1]
        for name, term in con.eval_requires(c):
            self.oblige("call@%d.%s.requires.%s" % (e.lineno, short, name), term, self.con.tags, e.lineno, "requires")
            self.assume(term)
        for comp in con.modifies:
            self.st.havoc(comp, short.replace(".", "_"))
        if getattr(con, "result_term", None) is not None:
            # a functional result specification: the call IS this term of the pre-state
            result, facts = VZ(con.result_term(Ctx(pre, pre, vals, self_ref, con.cls)), con.result), []
        else:
            result, facts = make_symbolic(con.result, "ret." + short.split(".")[-1])
        for f in facts:
            self.assume(f)
        c = Ctx(pre, self.st, vals, self_ref, con.cls, result=result)
        rclauses = con.eval_raises(c, for_caller=True)
        choice = self.p.decide(1 + len(rclauses), "call@%d" % e.lineno) if rclauses else 0
        if choice == 0:
            for (exc, name, when, posts, fields, tags, iff) in rclauses:
                if iff:
                    self.assume(Not(when))
            for name, term, tags in con.eval_ensures(c, for_caller=True):
                self.assume(term)
            self.call_results[short] = result
            self.call_results[short + "@args"] = vals
            return result
        exc, name, when, posts, fields, tags, iff = rclauses[choice - 1]
        self.call_results[short + "@args"] = vals
        self.assume(when)
        for pname, term in posts:
            self.assume(term)
        raise PyRaise(VExc(exc, {k: VConst(v) for k, v in fields.items()}, e))

    def coerce_arg(self, v, spec, e):
        if spec in ("str", "real", "int", "bool", "json"):
            return VZ(self.scalar(v, spec, e), spec)
        if spec.startswith("opt") and spec[3:] in ("str", "real", "int", "bool", "json"):
            isn, t = to_opt(v, spec[3:])
            return VOpt(isn, VZ(t, spec[3:]))
        if spec.startswith("ref:") or spec.startswith("ref?:"):
            if not (isinstance(v, VRef) and v.cls == spec.split(":")[1]):
                raise TypeError("argument is not a %s object" % spec.split(":")[1])
            return v
        if spec == "sm":
            if not (isinstance(v, VNamed) and v.name == "SidedMessage"):
                raise Unsupported("argument is not a SidedMessage at %d" % e.lineno)
            return VNamed("SidedMessage", {k: VZ(self.scalar(v.fields[k], kd, e), kd)
                                           for k, kd in NT_KINDS["SidedMessage"].items()})
        if spec == "pair:json":
            if isinstance(v, VTuple) and len(v.items) == 2:
                return VTuple([VZ(to_term(x, "json"), "json") for x in v.items])
            raise Unsupported("argument is not a pair at %d" % e.lineno)
        return v

    # loops --------------------------------------------------------------------
    def exec_for(self, s, env):
        from . import loops
        return loops.exec_for(self, s, env)

    def clock(self):
        t = fresh("clock", REAL)
        if self.last_clock is not None:
            self.assume(t >= self.last_clock)   # A15
        self.last_clock = t
        if hasattr(self, "call_results"):
            self.call_results.setdefault("time.time@first", t)       # ghost: the first clock read of this run
            self.call_results["time.time@last"] = t
        # A15: clock reads do not decrease, and every arrival time in the database is an earlier
        # clock read (census: `added` only ever receives the event's clock read)
        ms = self.st.t("ch.mailbox_sides")
        self.assume(ms.forall(lambda r: r.added <= t))
        self.oracles.append(("time.time", t))
        return VZ(t, "real")


def _mentions(t, c):
    seen = set()
    stack = [t]
    while stack:
        x = stack.pop()
        if x.get_id() in seen:
            continue
        seen.add(x.get_id())
        if x.eq(c):
            return True
        stack.extend(x.children())
    return False


FRAME_PROPS = [
    ("heap.", ["C02", "C11", "C12", "C13", "C15", "C17"]), ("alloc", ["C02", "C11"]),
    ("ch.messages", ["C01", "C06", "C13", "C10"]), ("ch.mailbox", ["C05", "C06", "C08", "C10", "C12", "C13"]),
    ("ch.nameplate", ["C03", "C04", "C06", "C07", "C10", "C13"]), ("us.", ["C15", "C16", "C18"]),
    ("in_tx.", ["C09", "C10"]), ("out", ["C01", "C02", "C05", "C09", "C17"]), ("np_next", ["C03", "C10"])]


def frame_tags(comp, fn_tags):
    """the properties whose argument relies on component `comp` not being written (attribution of a
    frame violation), restricted to those that use the function at all"""
    for prefix, props in FRAME_PROPS:
        if comp.startswith(prefix):
            return [p for p in props if p in fn_tags] or list(fn_tags)
    return list(fn_tags)


def e_const(node):
    return node.value if isinstance(node, ast.Constant) else None


def make_symbolic_named(spec, base):
    """Like make_symbolic but with stable (non-fresh) names for arguments."""
    if spec in ("str", "real", "int", "bool", "json"):
        return VZ(Const(base, sort_of(spec)), spec), []
    if spec.startswith("opt") and spec[3:] in ("str", "real", "int", "bool", "json"):
        k = spec[3:]
        return VOpt(Const(base + ".isnone", BOOL), VZ(Const(base, sort_of(k)), k)), []
    if spec.startswith("ref:"):
        r = Const(base, INT)
        return VRef(r, spec[4:]), [r != 0]
    if spec.startswith("msg"):
        from .contract_types import MSG_SCHEMA
        return VMsg(base, MSG_SCHEMA), []
    if spec == "framemap":
        from .callbacks import VFrameMap
        return VFrameMap(Const(base, H.Frame)), []
    if spec.startswith("callback:"):
        _, which, hname = spec.split(":")
        return VCallback(which, Const("arg." + hname, INT)), []
    return make_symbolic(spec, base)


def vsubst(v, i, k):
    """substitute index constant i by term k inside a symbolic value"""
    if isinstance(v, VConst):
        return v
    if isinstance(v, VZ):
        return VZ(z3.substitute(v.t, (i, k)), v.kind)
    if isinstance(v, VOpt):
        return VOpt(z3.substitute(v.is_none, (i, k)), vsubst(v.val, i, k))
    if isinstance(v, VNamed):
        return VNamed(v.name, {f: vsubst(x, i, k) for f, x in v.fields.items()})
    if isinstance(v, VTuple):
        return VTuple([vsubst(x, i, k) for x in v.items])
    if isinstance(v, VMap):
        return VMap({f: vsubst(x, i, k) for f, x in v.d.items()})
    if isinstance(v, VRow):
        view = None if v.view is None else {kk: (t, z3.substitute(r, (i, k)), c) for kk, (t, r, c) in v.view.items()}
        return VRow(v.tbl, z3.substitute(v.rid, (i, k)), view)
    if isinstance(v, VRef):
        return VRef(z3.substitute(v.t, (i, k)), v.cls, v.nullable)
    raise Unsupported("vsubst of %r" % (v,))
