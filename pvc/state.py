"""State model (DESIGN 4): tables read from the real schema files, SQL
statement semantics, transaction ghost, heap fields, outbox."""
import os
import re
import z3
from .zs import *  # noqa
from .values import *  # noqa

REPO = os.environ.get("PVC_REPO", "/repo")
PKG = os.path.join(REPO, "src", "wormhole_mailbox_server")

# Column kinds that the declared SQL type does not determine (DESIGN 4.2, A9):
KIND_OVERRIDE = {
    ("ch", "messages", "msg_id"): "json",      # msg.get("id"): any JSON or None
    ("us", "client_versions", "implementation"): "json",
    ("us", "client_versions", "version"): "json",
    ("us", "current", "blur_time"): "real",
}
# Columns that may hold NULL (anything else must provably receive non-None):
NULLABLE = {
    ("ch", "mailbox_sides", "mood"),
    ("ch", "nameplates", "request_id"),
    ("us", "nameplates", "waiting_time"),
    ("us", "mailboxes", "waiting_time"),
    ("us", "current", "blur_time"),
}


class Column:
    def __init__(self, name, kind, pk, autoinc, ref):
        self.name, self.kind, self.pk, self.autoinc, self.ref = name, kind, pk, autoinc, ref
        self.nullable = False


class TableSchema:
    def __init__(self, db, name, cols):
        self.db, self.name, self.cols = db, name, cols
        self.key = "%s.%s" % (db, name)

    def col(self, c):
        for x in self.cols:
            if x.name == c:
                return x
        raise KeyError("no column %s.%s" % (self.key, c))

    def has(self, c):
        return any(x.name == c for x in self.cols)


def strip_sql_comments(text):
    return re.sub(r"--[^\n]*", "", text)


def split_statements(text):
    return [s.strip() for s in strip_sql_comments(text).split(";") if s.strip()]


def parse_schema(db, path):
    """CREATE TABLE statements of a schema file -> {name: TableSchema}."""
    text = open(path).read()
    out = {}
    raw = {}
    for st in split_statements(text):
        m = re.match(r"CREATE TABLE `(\w+)`\s*\((.*)\)\s*$", st, re.S)
        if not m:
            continue
        tname, body = m.group(1), m.group(2)
        cols = []
        for part in body.split(","):
            part = " ".join(part.split())
            cm = re.match(r"`(\w+)`\s*(.*)$", part)
            if not cm:
                raise Unsupported("schema column: %r" % part)
            cname, rest = cm.group(1), cm.group(2)
            ty = re.match(r"(INTEGER|VARCHAR|BOOLEAN)?", rest).group(1)
            pk = "PRIMARY KEY" in rest
            ai = "AUTOINCREMENT" in rest
            rm = re.search(r"REFERENCES `(\w+)`\(`(\w+)`\)", rest)
            ref = (rm.group(1), rm.group(2)) if rm else None
            cols.append((cname, ty, pk, ai, ref))
        raw[tname] = cols
    for tname, cols in raw.items():
        cs = []
        for (cname, ty, pk, ai, ref) in cols:
            kind = {"VARCHAR": "str", "BOOLEAN": "bool", "INTEGER": "real", None: None}[ty]
            if ty == "INTEGER" and pk:
                kind = "int"
            cs.append(Column(cname, kind, pk, ai, ref))
        out[tname] = TableSchema(db, tname, cs)
    for t in out.values():
        for c in t.cols:
            if c.kind is None:
                if not c.ref:
                    raise Unsupported("untyped column %s.%s" % (t.name, c.name))
                c.kind = out[c.ref[0]].col(c.ref[1]).kind
            c.kind = KIND_OVERRIDE.get((db, t.name, c.name), c.kind)
            c.nullable = (db, t.name, c.name) in NULLABLE
    return out


_SCHEMA = None


def schema():
    global _SCHEMA
    if _SCHEMA is None:
        import ast
        src = open(os.path.join(PKG, "database.py")).read()
        tree = ast.parse(src)
        ver = {}
        for n in tree.body:
            if isinstance(n, ast.Assign) and isinstance(n.targets[0], ast.Name) \
                    and n.targets[0].id in ("CHANNELDB_TARGET_VERSION", "USAGEDB_TARGET_VERSION"):
                ver[n.targets[0].id] = n.value.value
        d = {}
        ch = parse_schema("ch", os.path.join(PKG, "db-schemas", "channel-v%d.sql" % ver["CHANNELDB_TARGET_VERSION"]))
        us = parse_schema("us", os.path.join(PKG, "db-schemas", "usage-v%d.sql" % ver["USAGEDB_TARGET_VERSION"]))
        for t in ch.values():
            d[t.key] = t
        for t in us.values():
            d[t.key] = t
        _SCHEMA = d
    return _SCHEMA


def reset_schema():
    global _SCHEMA
    _SCHEMA = None


class Tbl:
    """Immutable table snapshot: live[rowid], one array per column, one null
    flag array per nullable column. `nameplates.id` (INTEGER PRIMARY KEY) is the
    rowid itself."""

    def __init__(self, sch, live, cols, nulls):
        self.sch, self.live, self.cols, self.nulls = sch, live, cols, nulls

    @staticmethod
    def symbolic(sch, tag):
        live = Array("%s.live@%s" % (sch.key, tag), INT, BOOL)
        cols, nulls = {}, {}
        for c in sch.cols:
            if c.kind == "int" and c.pk:
                continue
            cols[c.name] = Array("%s.%s@%s" % (sch.key, c.name, tag), INT, sort_of(c.kind))
            if c.nullable:
                nulls[c.name] = Array("%s.%s.null@%s" % (sch.key, c.name, tag), INT, BOOL)
        return Tbl(sch, live, cols, nulls)

    @staticmethod
    def fresh(sch, base):
        live = fresh("%s.live~%s" % (sch.key, base), ArraySort(INT, BOOL))
        cols, nulls = {}, {}
        for c in sch.cols:
            if c.kind == "int" and c.pk:
                continue
            cols[c.name] = fresh("%s.%s~%s" % (sch.key, c.name, base), ArraySort(INT, sort_of(c.kind)))
            if c.nullable:
                nulls[c.name] = fresh("%s.%s.null~%s" % (sch.key, c.name, base), ArraySort(INT, BOOL))
        return Tbl(sch, live, cols, nulls)

    def get(self, c, r):
        col = self.sch.col(c)
        if col.kind == "int" and col.pk:
            return r
        return self.cols[c][r]

    def isnull(self, c, r):
        if c in self.nulls:
            return self.nulls[c][r]
        return BoolVal(False)

    def row(self, r):
        return Row(self, r)

    def value(self, c, r):
        """V for reading column c of row r."""
        col = self.sch.col(c)
        v = VZ(self.get(c, r), col.kind)
        if col.nullable:
            return VOpt(self.isnull(c, r), v)
        return v

    def with_(self, live=None, cols=None, nulls=None):
        nc = dict(self.cols)
        nc.update(cols or {})
        nn = dict(self.nulls)
        nn.update(nulls or {})
        return Tbl(self.sch, self.live if live is None else live, nc, nn)

    # -- specification helpers -------------------------------------------------
    def forall(self, body):
        """forall rowid r: live[r] => body(Row)"""
        return FA([INT], lambda r: Implies(self.live[r], body(Row(self, r))),
                  pats=lambda r: [self.live[r]])

    def exists(self, body):
        return EX([INT], lambda r: And(self.live[r], body(Row(self, r))))

    def none(self, body):
        return FA([INT], lambda r: Not(And(self.live[r], body(Row(self, r)))),
                  pats=lambda r: [self.live[r]])


class Row:
    def __init__(self, tbl, r):
        self._t, self.r = tbl, r

    def __getattr__(self, c):
        if c.startswith("_"):
            raise AttributeError(c)
        return self._t.get(c, self.r)

    def null(self, c):
        return self._t.isnull(c, self.r)


def same_row(t0, t1, r, cols=None):
    """columns of rowid r equal in both snapshots"""
    cs = []
    for c in (cols or t0.cols.keys()):
        cs.append(t0.cols[c][r] == t1.cols[c][r])
        if c in t0.nulls:
            cs.append(t0.nulls[c][r] == t1.nulls[c][r])
    return conj(cs)


def tbl_eq(t0, t1):
    """Extensional equality on live rows."""
    if t0 is t1:
        return BoolVal(True)
    return FA([INT], lambda r: And(t0.live[r] == t1.live[r],
                                   Implies(t0.live[r], same_row(t0, t1, r))),
              pats=lambda r: [t1.live[r], t0.live[r]])


def arrays_equal(t0, t1):
    """the two snapshots are the same arrays (stronger than tbl_eq; cheap for the solver)"""
    if t0 is t1:
        return BoolVal(True)
    return And(t0.live == t1.live, *([t0.cols[c] == t1.cols[c] for c in t0.cols] +
                                     [t0.nulls[c] == t1.nulls[c] for c in t0.nulls]))


def is_delete(t0, t1, pred):
    """t1 = t0 minus the live rows satisfying pred(Row); other rows unchanged."""
    return FA([INT], lambda r: And(t1.live[r] == And(t0.live[r], Not(pred(Row(t0, r)))),
                                   Implies(t1.live[r], same_row(t0, t1, r))),
              pats=lambda r: [t1.live[r], t0.live[r]])


def is_update(t0, t1, pred, sets):
    """t1 = t0 with columns `sets` (col -> term | (isnull, term)) assigned on the
    live rows satisfying pred; everything else unchanged."""
    def body(r):
        hit = And(t0.live[r], pred(Row(t0, r)))
        cs = [t1.live[r] == t0.live[r]]
        for c in t0.cols:
            if c in sets:
                v = sets[c]
                if isinstance(v, tuple):
                    cs.append(t1.nulls[c][r] == If(hit, v[0], t0.nulls[c][r]))
                    v = v[1]
                elif c in t0.nulls:
                    cs.append(t1.nulls[c][r] == If(hit, BoolVal(False), t0.nulls[c][r]))
                cs.append(Implies(t0.live[r], t1.cols[c][r] == If(hit, v, t0.cols[c][r])))
            else:
                cs.append(Implies(t0.live[r], t1.cols[c][r] == t0.cols[c][r]))
                if c in t0.nulls:
                    cs.append(Implies(t0.live[r], t1.nulls[c][r] == t0.nulls[c][r]))
        return And(*cs)
    return FA([INT], body, pats=lambda r: [t1.live[r], t0.live[r]])


def is_insert(t0, t1, vals, rowid=None):
    """t1 = t0 plus one new row with the given column values (col -> term or
    (isnull, term)); unnamed nullable columns NULL. Existential over the rowid
    unless given."""
    def at(r2):
        cs = [Not(t0.live[r2]), t1.live[r2]]
        for c in t0.cols:
            if c in vals:
                v = vals[c]
                if isinstance(v, tuple):
                    cs.append(t1.nulls[c][r2] == v[0])
                    cs.append(Implies(Not(v[0]), t1.cols[c][r2] == v[1]))
                else:
                    cs.append(t1.cols[c][r2] == v)
                    if c in t0.nulls:
                        cs.append(Not(t1.nulls[c][r2]))
            elif c in t0.nulls:
                cs.append(t1.nulls[c][r2])
        cs.append(FA([INT], lambda r: Implies(r != r2, And(t1.live[r] == t0.live[r],
                                                          Implies(t0.live[r], same_row(t0, t1, r)))),
                     pats=lambda r: [t1.live[r], t0.live[r]]))
        return And(*cs)
    if rowid is not None:
        return at(rowid)
    return EX([INT], at)


def is_insert_where(t0, t1, P):
    """t1 = t0 plus exactly one new row whose columns satisfy P(Row)."""
    def at(r2):
        return And(Not(t0.live[r2]), t1.live[r2], P(Row(t1, r2)),
                   FA([INT], lambda r: Implies(r != r2, And(t1.live[r] == t0.live[r],
                                                           Implies(t0.live[r], same_row(t0, t1, r)))),
                      pats=lambda r: [t1.live[r], t0.live[r]]))
    return EX([INT], at)


# ---------------------------------------------------------------------------
# SQL
# ---------------------------------------------------------------------------

class SqlStmt:
    pass


def parse_sql(sql):
    s = " ".join(sql.split())
    st = SqlStmt()
    st.text = s

    def conds(w):
        parts = [p.strip() for p in w.split(" AND ")]
        cols = []
        for p in parts:
            m = re.match(r"^`(\w+)`\s*=\s*\?$", p)
            if not m:
                raise Unsupported("SQL WHERE term %r in %r" % (p, s))
            cols.append(m.group(1))
        return cols
    m = re.match(r"^SELECT (\*|DISTINCT `(\w+)`) FROM `(\w+)`(?: WHERE (.*?))?(?: ORDER BY `(\w+)` ASC)?$", s)
    if m:
        st.kind = "select"
        st.distinct = m.group(2)
        st.table = m.group(3)
        st.where = conds(m.group(4)) if m.group(4) else []
        st.order = m.group(5)
        st.nparams = len(st.where)
        return st
    m = re.match(r"^INSERT INTO `(\w+)` \((.*?)\) VALUES\s*\(([?, ]*)\)$", s)
    if m:
        st.kind = "insert"
        st.table = m.group(1)
        st.cols = re.findall(r"`(\w+)`", m.group(2))
        if len(st.cols) != m.group(3).count("?") or len(st.cols) != len([x for x in m.group(2).split(",")]):
            raise Unsupported("SQL INSERT arity in %r" % s)
        st.nparams = len(st.cols)
        return st
    m = re.match(r"^UPDATE `(\w+)` SET (.*?) WHERE (.*)$", s)
    if m:
        st.kind = "update"
        st.table = m.group(1)
        st.sets = []
        for p in m.group(2).split(","):
            mm = re.match(r"^\s*`(\w+)`\s*=\s*\?\s*$", p)
            if not mm:
                raise Unsupported("SQL SET term %r" % p)
            st.sets.append(mm.group(1))
        st.where = conds(m.group(3))
        st.nparams = len(st.sets) + len(st.where)
        return st
    m = re.match(r"^DELETE FROM `(\w+)`(?: WHERE (.*))?$", s)
    if m:
        st.kind = "delete"
        st.table = m.group(1)
        st.where = conds(m.group(2)) if m.group(2) else []
        st.nparams = len(st.where)
        return st
    raise Unsupported("SQL statement outside the grammar: %r" % s)


class State:
    """Mutable within one path; components are immutable values."""

    def __init__(self):
        self.tabs = {}
        self.in_tx = {}
        self.np_next = None
        self.heap = {}
        self.alloc = None
        self.out_len = None
        self.out_buf = None

    @staticmethod
    def symbolic(tag):
        s = State()
        for key, sch in schema().items():
            s.tabs[key] = Tbl.symbolic(sch, tag)
        s.in_tx = {"ch": Const("in_tx.ch@%s" % tag, BOOL), "us": Const("in_tx.us@%s" % tag, BOOL)}
        s.np_next = Const("np_next@%s" % tag, INT)
        from . import heap as H
        H.init_symbolic(s, tag)
        return s

    def copy(self):
        s = State()
        s.tabs = dict(self.tabs)
        s.in_tx = dict(self.in_tx)
        s.np_next = self.np_next
        s.heap = dict(self.heap)
        s.alloc = self.alloc
        s.out_len, s.out_buf = self.out_len, self.out_buf
        return s

    def t(self, key):
        return self.tabs[key]

    # component access by name (for modifies/frame handling)
    def components(self):
        names = list(self.tabs.keys()) + ["in_tx.ch", "in_tx.us", "np_next", "alloc", "out"]
        names += ["heap." + f for f in self.heap]
        return names

    def get_comp(self, name):
        if name in self.tabs:
            return self.tabs[name]
        if name.startswith("in_tx."):
            return self.in_tx[name[6:]]
        if name == "np_next":
            return self.np_next
        if name == "alloc":
            return self.alloc
        if name == "out":
            return (self.out_len, self.out_buf)
        if name.startswith("heap."):
            return self.heap[name[5:]]
        raise KeyError(name)

    def set_comp(self, name, v):
        if name in self.tabs:
            self.tabs[name] = v
        elif name.startswith("in_tx."):
            self.in_tx[name[6:]] = v
        elif name == "np_next":
            self.np_next = v
        elif name == "alloc":
            self.alloc = v
        elif name == "out":
            self.out_len, self.out_buf = v
        elif name.startswith("heap."):
            self.heap[name[5:]] = v
        else:
            raise KeyError(name)

    def havoc(self, name, base="h"):
        from . import heap as H
        if name in self.tabs:
            self.tabs[name] = Tbl.fresh(self.tabs[name].sch, base)
        elif name.startswith("in_tx."):
            self.in_tx[name[6:]] = fresh("in_tx~" + base, BOOL)
        elif name == "np_next":
            self.np_next = fresh("np_next~" + base, INT)
        elif name == "alloc":
            self.alloc = fresh("alloc~" + base, ArraySort(INT, BOOL))
        elif name == "out":
            self.out_len = fresh("out_len~" + base, ArraySort(INT, INT))
            self.out_buf = fresh("out_buf~" + base, ArraySort(INT, ArraySort(INT, H.Frame)))
        elif name.startswith("heap."):
            f = name[5:]
            self.heap[f] = H.fresh_field(f, base)
        else:
            raise KeyError(name)


def ident(a, b):
    """syntactic identity of two component values"""
    if a is b:
        return True
    if isinstance(a, tuple) and isinstance(b, tuple):
        return all(ident(x, y) for x, y in zip(a, b))
    if isinstance(a, z3.ExprRef) and isinstance(b, z3.ExprRef):
        return a.eq(b)
    if isinstance(a, Tbl) and isinstance(b, Tbl):
        return (a.live.eq(b.live) and all(a.cols[c].eq(b.cols[c]) for c in a.cols)
                and all(a.nulls[c].eq(b.nulls[c]) for c in a.nulls))
    return False


def comp_eq(name, a, b):
    """semantic equality of one state component"""
    if a is b:
        return BoolVal(True)
    if isinstance(a, Tbl):
        return tbl_eq(a, b)
    if isinstance(a, tuple):
        return conj([comp_eq(name, x, y) for x, y in zip(a, b)])
    if isinstance(a, dict):
        return conj([comp_eq(name, a[k], b[k]) for k in a])
    return a == b


def where_pred(tbl, cols, params):
    """SQL three-valued WHERE c=? AND ...: NULL never matches."""
    prm = []
    for c, p in zip(cols, params):
        col = tbl.sch.col(c)
        isn, t = to_opt(p, col.kind)
        prm.append((c, isn, t))

    def pred(r):
        cs = []
        for c, isn, t in prm:
            cs.append(Not(isn))
            cs.append(Not(tbl.isnull(c, r)))
            cs.append(tbl.get(c, r) == t)
        return conj(cs)
    return pred
