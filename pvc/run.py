"""Running the obligations of a set of functions in parallel and collecting
verdicts (DESIGN 7.1)."""
import importlib
import multiprocessing as mp
import os
import re
import time
import traceback

from .front import Source
from .symex import Exec
from .values import Unsupported
from . import solve
from .contract import REGISTRY

CONTRACT_MODULES = ["mailbox", "appnamespace", "server", "websocket", "tap"]


def load_contracts():
    for m in CONTRACT_MODULES:
        try:
            importlib.import_module("contracts." + m)
        except ModuleNotFoundError as e:
            if "contracts." + m not in str(e):
                raise


    # function-level tags implied by clause tags (kept current by tools/audit_tags.py --write)
    import json
    fp = os.path.join(os.path.dirname(os.path.dirname(os.path.abspath(__file__))), "contracts", "extra_tags.json")
    if os.path.exists(fp):
        for q, ts in json.load(open(fp)).items():
            if q in REGISTRY and hasattr(REGISTRY[q], "tags"):
                for t in ts:
                    if t not in REGISTRY[q].tags:
                        REGISTRY[q].tags.append(t)


def norm(name):
    """obligation name without line numbers (stable under unrelated edits)"""
    return re.sub(r"@\d+", "", name)


_SRC = None


def _task(args):
    qual, timeout_ms, chunk, nchunks, want_smt = args
    global _SRC
    t0 = time.time()
    out = {"qual": qual, "results": [], "paths": 0, "error": None, "unsupported": None, "symex_s": 0.0,
           "exits": {}}
    try:
        if _SRC is None:
            _SRC = Source()
        ex = Exec(_SRC, qual)
        if chunk == 0:
            # write-based frame check on the AST (speaks even where symbolic execution stops early)
            from . import maywrite
            from .symex import frame_tags
            for comp, line in sorted(maywrite.may_write(ex.fdef, ex.con.cls).items()):
                ok = comp in ex.con.modifies
                nm = "%s#frame.maywrite.%s" % (qual, comp)
                out["results"].append({
                    "name": nm, "norm": norm(nm), "path": -1, "status": "discharged" if ok else "refuted", "backend": "syntactic",
                    "secs": 0.0, "tags": frame_tags(comp, ex.con.tags), "kind": "frame", "decisions": [],
                    "detail": "" if ok else "line %d writes %s, which the contract's modifies clause does not allow" % (line, comp)})
        paths = ex.explore()
        if ex.unsupported:
            out["unsupported"] = "; ".join(sorted(set(ex.unsupported)))[:600]
        out["symex_s"] = time.time() - t0
        out["paths"] = len(paths)
        for k, p in enumerate(paths):
            kind = p.exit[0] if p.exit else "?"
            out["exits"][kind] = out["exits"].get(kind, 0) + 1
            if k % nchunks != chunk:
                continue
            for o in p.obls:
                wf = witness_for(o)
                if wf is not None:
                    # an obligation an open finding is recorded for: under the negated witness first (fast); if that
                    # holds, a short outright attempt tells whether the defect is still there
                    v = retry_without_witness(ex, p, o, solve.Verdict("unknown", "z3", 0.0, "outright attempt pending"), timeout_ms)
                    if v.status.startswith("known:"):
                        w = solve.discharge(p, o, 4000, use_cvc5=False, hint=hints_for(o.name))
                        if w.status == "discharged":
                            v = w
                        else:
                            v.detail = "fails outright within a short budget (%s); discharged under the negated witness" % w.detail
                    else:
                        v = solve.discharge(p, o, timeout_ms, hint=hints_for(o.name))
                else:
                    v = solve.discharge(p, o, timeout_ms, hint=hints_for(o.name))
                if os.environ.get("PVC_LEARN") and v.status == "discharged" and v.secs > 0.8 and not z3_is_and(o.goal):
                    v = fastest_strategy(p, o, v)
                r = {"name": o.name, "norm": norm(o.name), "path": k, "status": v.status, "backend": v.backend,
                     "secs": round(v.secs, 3), "tags": o.tags, "kind": o.kind, "detail": v.detail,
                     "decisions": p.labels}
                if want_smt and (v.status != "discharged" or (k == 0 and o is p.obls[0])):
                    r["smt"] = smt_text(p, o)[:6000]
                out["results"].append(r)
    except Unsupported as e:
        out["unsupported"] = str(e)
    except Exception:
        out["error"] = traceback.format_exc()
    out["wall_s"] = time.time() - t0
    return out


def z3_is_and(g):
    import z3
    return z3.is_and(g) and len(g.children()) > 1


def fastest_strategy(p, o, v):
    """(learning runs only) time every strategy on a slow obligation; report them fastest first"""
    from .zs import base_axioms
    hy = solve.hyps_of(p, o)
    rel = solve.relevant(hy, o.goal)
    times = []
    for key in solve.STRATEGIES[:-1]:
        r, secs, _ = solve._run_strategy(key, base_axioms(), hy, rel, o.goal, 40000)
        if r is not None and str(r) == "unsat":
            times.append((secs, key))
    times.sort()
    if times:
        return solve.Verdict("discharged", "+".join(k for _, k in times[:3]), times[0][0])
    return v


_HINTS = None


def hints_for(name):
    global _HINTS
    if _HINTS is None:
        import json
        fp = os.path.join(os.path.dirname(os.path.dirname(os.path.abspath(__file__))), "solver_hints.json")
        _HINTS = json.load(open(fp)) if os.path.exists(fp) else {}
    return _HINTS.get(norm(name))


_FINDINGS = None


def open_findings():
    global _FINDINGS
    if _FINDINGS is None:
        import json
        fp = os.path.join(os.path.dirname(os.path.dirname(os.path.abspath(__file__))), "known_findings.json")
        _FINDINGS = [f for f in json.load(open(fp))["findings"]] if os.path.exists(fp) else []
    return [f for f in _FINDINGS if f.get("status") == "open"]


def witness_for(o):
    nm = norm(o.name)
    for f in open_findings():
        if f.get("witness") and any(re.search(pat, nm) for pat in f["obligations"]):
            return f
    return None


def retry_without_witness(ex, p, o, v, timeout_ms):
    """Pre and not-K => O for an open finding with witness K (DESIGN 7.2)"""
    nm = norm(o.name)
    for f in open_findings():
        if not f.get("witness") or not any(re.search(pat, nm) for pat in f["obligations"]):
            continue
        from contracts.findings import WITNESS
        notk = WITNESS[f["witness"]](ex.pre, ex.argvals, ex.self_ref)
        w = solve.discharge(p, o, timeout_ms, extra=[notk])
        if w.status == "discharged":
            return solve.Verdict("known:" + f["id"], w.backend, v.secs + w.secs,
                                 "fails outright (%s); discharged under the negated witness of %s" % (v.detail, f["id"]))
    return v


def smt_text(p, o):
    import z3
    s = z3.Solver()
    from .zs import base_axioms, Not
    for a in base_axioms():
        s.add(a)
    for h in solve.hyps_of(p, o):
        s.add(h)
    s.add(Not(o.goal))
    return s.to_smt2()


def run_functions(quals, timeout_ms=10000, jobs=None, split=None, want_smt=True):
    """-> list of per-task dicts. `split`: qual -> number of chunks (by path index)."""
    jobs = jobs or min(16, os.cpu_count() or 4)
    if not quals:
        return []
    tasks = []
    for q in quals:
        n = (split or {}).get(q, 1)
        for c in range(n):
            tasks.append((q, timeout_ms, c, n, want_smt))
    if jobs == 1 or len(tasks) == 1:
        return [_task(t) for t in tasks]
    ctx = mp.get_context("fork")
    # one fresh process per task: verdicts must not depend on what the worker happened to verify before
    # (z3 is sensitive to AST ids / symbol numbering accumulated in its context)
    with ctx.Pool(min(jobs, len(tasks)), maxtasksperchild=1) as pool:
        return pool.map(_task, tasks, chunksize=1)
