"""Discharging obligations: z3 first, /usr/bin/cvc5 on z3's unknowns (DESIGN 7.1)."""
import os
import subprocess
import tempfile
import time
import z3
from .zs import base_axioms, Not


class Verdict:
    def __init__(self, status, backend, secs, detail=""):
        self.status, self.backend, self.secs, self.detail = status, backend, secs, detail


def hyps_of(path, obl):
    hyps = []
    for i, h in enumerate(path.pc[:obl.nhyps]):
        if obl.uses is not None and i in getattr(path, "req_index", {}) and path.req_index[i] not in obl.uses:
            continue        # hypothesis discipline: a precondition the clause does not declare
        hyps.append(h)
    return hyps + list(obl.extra_hyps)


# (engine, seed, share of the budget). z3's default combined solver picks its strategy from the timeout
# value (a 20 ms proof became `unknown` under a 5 s limit but not under a 10 s one), so its slices are never
# below 10 s; the plain SMT core (SimpleSolver) is insensitive to the limit and often complementary.
SCHEDULE = (("core", "rel", 0, 0.08), ("default", "all", 0, 0.25), ("core", "all", 0, 0.17), ("default", "rel", 0, 0.25),
            ("core", "rel", 11, 0.25))


def discharge(path, obl, timeout_ms=10000, use_cvc5=True, extra=(), hint=None):
    """Portfolio per obligation (see SCHEDULE). A conjunction is split into its conjuncts (sound: all
    must be unsat). `hint`: strategy keys that discharged this obligation on the unchanged tree
    (solver_hints.json, written by tools/learn_hints.py) - tried first; only the order changes."""
    goals = [obl.goal]
    if z3.is_and(obl.goal) and len(obl.goal.children()) > 1:
        goals = list(obl.goal.children())
    hyps = hyps_of(path, obl) + list(extra)
    axioms = base_axioms()
    total = 0.0
    used = []
    for g in goals:
        v = _attempts(axioms, hyps, g, timeout_ms, use_cvc5, hint)
        total += v.secs
        if v.status != "discharged":
            return Verdict(v.status, v.backend, total, v.detail + ("; (conjunct of a split goal)" if len(goals) > 1 else ""))
        if v.backend not in used:
            used.append(v.backend)
    return Verdict("discharged", "+".join(used) + ("(split)" if len(goals) > 1 else ""), total)


def _syms(t, memo):
    """uninterpreted symbols of a term"""
    i = t.get_id()
    if i in memo:
        return memo[i]
    out = set()
    memo[i] = out
    if z3.is_quantifier(t):
        out |= _syms(t.body(), memo)
    elif z3.is_app(t):
        d = t.decl()
        if d.kind() == z3.Z3_OP_UNINTERPRETED:
            out.add(d.name())
        for c in t.children():
            out |= _syms(c, memo)
    return out


def relevant(hyps, goal, hops=2):
    """hypotheses connected to the goal through shared symbols, ignoring hub symbols that occur in more
    than a quarter of all hypotheses (`self`, arguments, configuration). Sound: a subset."""
    memo = {}
    syms = [set(_syms(h, memo)) for h in hyps]
    count = {}
    for ss in syms:
        for x in ss:
            count[x] = count.get(x, 0) + 1
    hubs = {x for x, n in count.items() if n > max(3, len(hyps) // 4)}
    S = set(_syms(goal, memo)) - hubs
    if not S:
        return list(hyps)
    chosen = [False] * len(hyps)
    for _ in range(hops):
        grew = False
        for k, h in enumerate(hyps):
            if not chosen[k] and (not (syms[k] - hubs) or (syms[k] - hubs) & S):
                chosen[k] = True
                new = syms[k] - hubs - S
                if new:
                    S |= new
                    grew = True
        if not grew:
            break
    return [h for k, h in enumerate(hyps) if chosen[k]]


_SPLIT = None


def case_split(goal):
    """subgoals of the negated goal after NNF/skolemisation and splitting of top-level disjunctions
    (sound: the negated goal is unsatisfiable with the hypotheses iff every case is)"""
    global _SPLIT
    if _SPLIT is None:
        _SPLIT = z3.Then(z3.Tactic("simplify"), z3.Tactic("nnf"),
                         z3.Repeat(z3.OrElse(z3.Tactic("split-clause"), z3.Tactic("skip")), 6))
    g = z3.Goal()
    g.add(Not(goal))
    try:
        subs = _SPLIT(g)
    except z3.Z3Exception:
        return None
    if len(subs) < 2 or len(subs) > 24:
        return None
    return [list(sg) for sg in subs]


STRATEGIES = ["cases", "core/rel/0", "default/all/0", "core/all/0", "default/rel/0", "core/rel/11", "cvc5"]


def _run_strategy(key, axioms, hyps, rel, goal, timeout_ms):
    """-> (z3 result or None if not applicable, seconds, solver)"""
    t0 = time.time()
    if key == "cases":
        cases = case_split(goal)
        if not cases:
            return None, 0.0, None
        for fs in cases:
            s = z3.SimpleSolver()
            s.set("timeout", max(3000, timeout_ms // 8))
            for a in axioms:
                s.add(a)
            for h in hyps:
                s.add(h)
            for f in fs:
                s.add(f)
            r = s.check()
            if r != z3.unsat:
                return z3.unknown, time.time() - t0, s
        return z3.unsat, time.time() - t0, None
    engine, which, seed = key.split("/")
    seed = int(seed)
    hs = rel if which == "rel" else hyps
    if which == "rel" and len(rel) == len(hyps) and engine == "default":
        return None, 0.0, None
    if engine == "default":
        # z3's default combined solver picks its strategy from the timeout value: never below 10 s
        s = z3.Solver()
        s.set("timeout", max(10000, timeout_ms // 4) if timeout_ms >= 10000 else timeout_ms)
    else:
        s = z3.SimpleSolver()
        s.set("timeout", max(3000, timeout_ms // 8) if timeout_ms >= 10000 else timeout_ms)
    if seed:
        s.set("random_seed", seed)
        s.set("smt.random_seed", seed)
    for a in axioms:
        s.add(a)
    for h in hs:
        s.add(h)
    s.add(Not(goal))
    r = s.check()
    if r == z3.sat and which == "rel":
        r = z3.unknown      # a model of a subset of the hypotheses says nothing
    return r, time.time() - t0, s


def _attempts(axioms, hyps, goal, timeout_ms, use_cvc5, hint=None):
    rel = relevant(hyps, goal, hops=2)
    order = [k for k in (hint or []) if k in STRATEGIES] + [k for k in STRATEGIES if k not in (hint or [])]
    total = 0.0
    detail = ""
    last = None
    full = None
    for key in order:
        if key == "cvc5":
            if not use_cvc5 or os.environ.get("PVC_NO_CVC5"):
                continue
            s = z3.SimpleSolver()
            for a in axioms:
                s.add(a)
            for h in hyps:
                s.add(h)
            s.add(Not(goal))
            v = cvc5_check(s, min(max(timeout_ms, 5000), 15000))
            total += v.secs
            if v.status == "discharged":
                return Verdict("discharged", "cvc5", total)
            detail += "; cvc5: " + v.detail
            continue
        r, secs, s = _run_strategy(key, axioms, hyps, rel, goal, timeout_ms)
        total += secs
        if r is None:
            continue
        if r == z3.unsat:
            return Verdict("discharged", key, total)
        if key.startswith("default/all") or key.startswith("core/all"):
            last = r
            if r == z3.sat:
                detail = "z3: sat" + detail
                break
            detail = "z3: unknown (%s)" % s.reason_unknown() + detail
    return Verdict("failed" if last == z3.sat else "unknown", "z3", total, detail.lstrip("; "))


def cvc5_check(solver, timeout_ms):
    try:
        text = "(set-logic ALL)\n" + solver.to_smt2()
    except Exception as ex:  # pragma: no cover
        return Verdict("unknown", "cvc5", 0, "export failed: %s" % ex)
    fd, path = tempfile.mkstemp(suffix=".smt2", dir=os.environ.get("PVC_TMP", None))
    try:
        with os.fdopen(fd, "w") as f:
            f.write(text)
        t = time.time()
        try:
            out = subprocess.run(["/usr/bin/cvc5", "--tlimit=%d" % timeout_ms, path], capture_output=True,
                                 text=True, timeout=timeout_ms / 1000.0 + 5)
        except subprocess.TimeoutExpired:
            return Verdict("unknown", "cvc5", time.time() - t, "timeout")
        dt = time.time() - t
        ans = out.stdout.strip().splitlines()[0] if out.stdout.strip() else out.stderr.strip()[:200]
        if ans == "unsat":
            return Verdict("discharged", "cvc5", dt)
        return Verdict("unknown", "cvc5", dt, ans)
    finally:
        try:
            os.unlink(path)
        except OSError:
            pass
