"""Discharging obligations: z3 first, /usr/bin/cvc5 on z3's unknowns (DESIGN 7.1)."""
import os
import subprocess
import tempfile
import time
import z3
from .zs import base_axioms, Not


class Verdict:
    def __init__(self, status, backend, secs, detail=""):
        self.status, self.backend, self.secs, self.detail = status, backend, secs, detail


def hyps_of(path, obl):
    hyps = []
    for i, h in enumerate(path.pc[:obl.nhyps]):
        if obl.uses is not None and i in getattr(path, "req_index", {}) and path.req_index[i] not in obl.uses:
            continue        # hypothesis discipline: a precondition the clause does not declare
        hyps.append(h)
    return hyps + list(obl.extra_hyps)


def discharge(path, obl, timeout_ms=10000, use_cvc5=True, extra=()):
    v = _discharge(path, obl, obl.goal, timeout_ms, use_cvc5, extra)
    if v.status != "discharged" and z3.is_and(obl.goal) and len(obl.goal.children()) > 1:
        # a conjunction the solver cannot do at once: every conjunct separately (sound: all must be unsat)
        total = v.secs
        for g in obl.goal.children():
            w = _discharge(path, obl, g, timeout_ms, use_cvc5, extra)
            total += w.secs
            if w.status != "discharged":
                return Verdict(v.status, v.backend, total, v.detail + "; conjunct failed: " + w.detail)
        return Verdict("discharged", "z3(split)", total)
    return v


def _discharge(path, obl, goal, timeout_ms, use_cvc5, extra):
    """several short attempts with different seeds beat one long one: E-matching proofs here either
    succeed in milliseconds or diverge, and which of the two can depend on instantiation order"""
    hyps = hyps_of(path, obl) + list(extra)
    axioms = base_axioms()
    total = 0.0
    detail = ""
    last = None
    s = None
    for attempt, seed in enumerate((0, 11, 42)):
        s = z3.Solver()
        s.set("timeout", max(1000, timeout_ms // 3))
        if seed:
            s.set("random_seed", seed)
            s.set("smt.random_seed", seed)
        for a in axioms:
            s.add(a)
        for h in hyps:
            s.add(h)
        s.add(Not(goal))
        t = time.time()
        r = s.check()
        total += time.time() - t
        last = r
        if r == z3.unsat:
            return Verdict("discharged", "z3" if attempt == 0 else "z3(seed %d)" % seed, total)
        if r == z3.sat:
            detail = "z3: sat"
            break
        detail = "z3: unknown (%s)" % s.reason_unknown()
    if use_cvc5:
        v = cvc5_check(s, timeout_ms)
        if v is not None:
            if v.status == "discharged":
                return v
            detail += "; cvc5: " + v.detail
    return Verdict("failed" if last == z3.sat else "unknown", "z3", total, detail)


def cvc5_check(solver, timeout_ms):
    try:
        text = "(set-logic ALL)\n" + solver.to_smt2()
    except Exception as ex:  # pragma: no cover
        return Verdict("unknown", "cvc5", 0, "export failed: %s" % ex)
    fd, path = tempfile.mkstemp(suffix=".smt2", dir=os.environ.get("PVC_TMP", None))
    try:
        with os.fdopen(fd, "w") as f:
            f.write(text)
        t = time.time()
        try:
            out = subprocess.run(["/usr/bin/cvc5", "--tlimit=%d" % timeout_ms, path], capture_output=True,
                                 text=True, timeout=timeout_ms / 1000.0 + 5)
        except subprocess.TimeoutExpired:
            return Verdict("unknown", "cvc5", time.time() - t, "timeout")
        dt = time.time() - t
        ans = out.stdout.strip().splitlines()[0] if out.stdout.strip() else out.stderr.strip()[:200]
        if ans == "unsat":
            return Verdict("discharged", "cvc5", dt)
        return Verdict("unknown", "cvc5", dt, ans)
    finally:
        try:
            os.unlink(path)
        except OSError:
            pass
