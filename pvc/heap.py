"""Heap model (DESIGN 4.4) and outbox frames (4.5).

Objects are Int references, 0 is None. A field is an array Ref -> sort; an
optional scalar field is a pair of arrays (isnone, val). Registry dicts are
arrays Ref -> (Str -> Ref), 0 meaning "key absent". `Mailbox._listeners` is
modelled as the set of handles (Ref -> (Ref -> Bool)); the closures stored in
it are covered by the callback contract (contracts/websocket.py).

Configuration values that the constructors copy from the one Server object
(`_db`, `_usage_db`, `_blur_usage`, `_log_requests`, `_allow_list`) are global
symbols; the copying itself is a checked obligation at each constructor call
(`#wiring.*`).
"""
from .zs import *  # noqa

# field -> kind
FIELDS = {
    "WebSocketServer": {
        "_app": ("ref?", "AppNamespace"), "_side": "str?", "_did_allocate": "bool",
        "_listening": "bool", "_did_claim": "bool", "_nameplate_id": "str?",
        "_did_release": "bool", "_did_open": "bool", "_mailbox": ("ref?", "Mailbox"),
        "_mailbox_id": "str?", "_did_close": "bool",
        "alive": "bool",     # ghost (A10): onOpen has run and onClose has not
    },
    "Mailbox": {
        "_app": ("ref", "AppNamespace"), "_app_id": "str", "_mailbox_id": "str",
        "_listeners": "listeners",
    },
    "AppNamespace": {"_app_id": "str", "_mailboxes": ("dict", "Mailbox")},
    "Server": {"_apps": ("dict", "AppNamespace"), "_welcome": "json"},
}
CONFIG_FIELDS = {"_db", "_usage_db", "_blur_usage", "_log_requests", "_allow_list", "_log_file"}

# Frame = finite map key -> FV (A9): absent | json value | list of ids
FV = z3.Datatype("FV")
FV.declare("absent")
FV.declare("fnone")
FV.declare("fstr", ("s", Str))
FV.declare("fnum", ("x", REAL))
FV.declare("fjson", ("j", Json))
FV.declare("fids", ("n", INT), ("ids", ArraySort(INT, Str)))   # the nameplates answer: list of ids
FV = FV.create()
Frame = ArraySort(Str, FV)
EMPTY_FRAME = K(Str, FV.absent)

# global configuration (A16)
CFG_USAGE = Const("cfg.usage_db", BOOL)           # usage_db is not None
CFG_BLUR_NONE = Const("cfg.blur.isnone", BOOL)
CFG_BLUR = Const("cfg.blur", REAL)
CFG_ALLOW_LIST = Const("cfg.allow_list", BOOL)
CFG_LOG_REQUESTS = Const("cfg.log_requests", BOOL)
SERVER = IntVal(1)                                # the one Server object


def field_sorts(cls, f):
    k = FIELDS[cls][f]
    if k == "bool":
        return {"": ArraySort(INT, BOOL)}
    if k == "str":
        return {"": ArraySort(INT, Str)}
    if k == "json":
        return {"": ArraySort(INT, Json)}
    if k == "str?":
        return {".isnone": ArraySort(INT, BOOL), "": ArraySort(INT, Str)}
    if k == "listeners":
        return {"": ArraySort(INT, ArraySort(INT, BOOL))}
    if isinstance(k, tuple) and k[0] in ("ref", "ref?"):
        return {"": ArraySort(INT, INT)}
    if isinstance(k, tuple) and k[0] == "dict":
        return {"": ArraySort(INT, ArraySort(Str, INT))}
    raise KeyError((cls, f))


def all_fields():
    for cls, fs in FIELDS.items():
        for f in fs:
            yield cls, f


def init_symbolic(st, tag):
    for cls, f in all_fields():
        for suf, so in field_sorts(cls, f).items():
            st.heap["%s.%s%s" % (cls, f, suf)] = Array("%s.%s%s@%s" % (cls, f, suf, tag), INT, so.range())
    st.alloc = Array("alloc@%s" % tag, INT, BOOL)
    st.out_len = Array("out_len@%s" % tag, INT, INT)
    st.out_buf = Array("out_buf@%s" % tag, INT, ArraySort(INT, Frame))
    # class tags are static: cls_of(ref)


def fresh_field(name, base):
    cls, rest = name.split(".", 1)
    f = rest
    suf = ""
    if rest.endswith(".isnone"):
        f, suf = rest[:-7], ".isnone"
    so = field_sorts(cls, f)[suf]
    return fresh("%s~%s" % (name, base), so)


cls_of = Function("cls_of", INT, Str)   # static class tag of a reference
