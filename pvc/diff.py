"""Differential cross-check of the verified semantics against CPython + SQLite (DESIGN 8.3).

`native/diffcheck.py` drives the real server through random histories, then calls one real method
and records the tables before and after.  Here the *contract* of that method - the very clauses the
symbolic executor proved from the real AST under the SQL semantics of pvc/builtins.py - is
evaluated on those concrete states: every `ensures` clause (or the matching `raises` clause) must
hold.  A clause that is false on a real run means the encoding (table model, SQL semantics, value
coercions) or the contract does not describe the code that runs: a checker error, never a property
violation."""
import json
import os
import subprocess
import time
import z3
from .zs import *  # noqa
from .values import *  # noqa
from .state import State, Tbl, schema
from .contract import REGISTRY, Ctx
from . import heap as H

HERE = os.path.dirname(os.path.dirname(os.path.abspath(__file__)))
APP, MBOX, NEWOBJ = 7, 9, 11


def term(v, kind):
    if kind == "str":
        return S(v if v is not None else "")
    if kind == "bool":
        return BoolVal(bool(v))
    if kind in ("real",):
        return RealVal(v if v is not None else 0)
    if kind == "int":
        return IntVal(v if v is not None else 0)
    if kind == "json":
        if v is None:
            return JNULL
        if isinstance(v, str):
            return jstr(S(v))
        return jnum(RealVal(v))
    raise ValueError(kind)


def concrete_table(sch, rows):
    live = K(INT, BoolVal(False))
    cols, nulls = {}, {}
    for c in sch.cols:
        if c.kind == "int" and c.pk:
            continue
        cols[c.name] = K(INT, default_term(c.kind))
        if c.nullable:
            nulls[c.name] = K(INT, BoolVal(False))
    for r in rows or []:
        rid = IntVal(r["__rowid"])
        live = Store(live, rid, True)
        for c in sch.cols:
            if c.kind == "int" and c.pk:
                continue
            v = r[c.name]
            if v is None and not c.nullable and c.kind != "json":
                raise ValueError("NULL in non-nullable column %s.%s" % (sch.key, c.name))
            cols[c.name] = Store(cols[c.name], rid, term(v, c.kind))
            if c.nullable:
                nulls[c.name] = Store(nulls[c.name], rid, BoolVal(v is None))
    return Tbl(sch, live, cols, nulls)


def concrete_state(snapshot, in_tx, heap_from=None):
    st = State.symbolic("diff") if heap_from is None else heap_from.copy()
    for key, sch in schema().items():
        db, name = key.split(".")
        rows = (snapshot[db] or {}).get(name, []) if snapshot.get(db) is not None else []
        st.tabs[key] = concrete_table(sch, rows)
    st.in_tx = {"ch": BoolVal(in_tx["ch"]), "us": BoolVal(in_tx["us"])}
    st.np_next = IntVal(snapshot["np_next"])
    return st


def base_heap(st, rec):
    hp = st.heap
    hp["AppNamespace._app_id"] = Store(K(INT, EMPTY), APP, S(rec["app_id"]))
    reg = K(Str, IntVal(0))
    for k in rec.get("registry_pre", []):
        reg = Store(reg, S(k), MBOX)
    hp["AppNamespace._mailboxes"] = Store(K(INT, K(Str, IntVal(0))), APP, reg)
    hp["Mailbox._app"] = Store(K(INT, IntVal(0)), MBOX, APP)
    hp["Mailbox._app_id"] = Store(K(INT, EMPTY), MBOX, S(rec["app_id"]))
    hp["Mailbox._mailbox_id"] = Store(K(INT, EMPTY), MBOX, S(rec.get("mailbox_id", "")))
    hp["Mailbox._listeners"] = K(INT, K(INT, BoolVal(False)))
    st.alloc = Store(Store(K(INT, BoolVal(False)), APP, True), MBOX, True)


def run_native(target, seed, cases):
    r = subprocess.run(["/venv/bin/python", os.path.join(HERE, "native", "diffcheck.py")],
                       input=json.dumps({"target": target, "seed": seed, "cases": cases}), capture_output=True, text=True,
                       timeout=600)
    if r.returncode != 0:
        raise RuntimeError("native run failed: " + r.stderr[-400:])
    return json.loads(r.stdout)


def _check(formulas, timeout_ms, simple=False):
    s = z3.SimpleSolver() if simple else z3.Solver()
    s.set("timeout", timeout_ms)
    for a in base_axioms():
        s.add(a)
    for f in formulas:
        s.add(f)
    return s.check()


def holds(clause, facts, timeout_ms=10000):
    """True: the clause is valid on this concrete state (its negation is unsat); False: it is refuted (the
    clause itself is unsat); None: the solver decides neither"""
    for simple in (False, True):
        if _check(list(facts) + [Not(clause)], timeout_ms, simple) == z3.unsat:
            return True
    for simple in (False, True):
        if _check(list(facts) + [clause], timeout_ms, simple) == z3.unsat:
            return False
    return None


SKIP_PRE = ("GH", "conn_ok", "apps_wf")     # global heap invariants about connections: there are none in these runs
SKIP = ("registry_wf", "preserves.", "ensures.shortest")      # clauses about in-memory registries / re-stated invariants;
# `shortest` quantifies over all 999 short names through the uninterpreted dec(): not decidable on a concrete state in useful time


def prepare(con, target, rec):
    """the contract of `target` instantiated on one real run: (facts, requires, clauses to hold)"""
    pre = concrete_state(rec["pre"], {"ch": False, "us": False})
    base_heap(pre, rec)
    post = concrete_state(rec["post"], rec["post"]["in_tx"], heap_from=pre)
    facts = [H.CFG_USAGE == BoolVal(rec["usage"]), H.CFG_BLUR_NONE == BoolVal(rec["blur"] is None),
             H.CFG_BLUR == RealVal(rec["blur"] or 0)]
    if isinstance(rec.get("result"), str) and rec["result"].isdigit() and str(int(rec["result"])) == rec["result"]:
        # ground instance of the decimal-rendering functions for the answer (dec/undec are uninterpreted)
        facts += [dec(IntVal(int(rec["result"]))) == S(rec["result"]), undec(S(rec["result"])) == IntVal(int(rec["result"]))]
    args = {}
    for n, sp in con.params.items():
        v = rec["args"].get(n)
        if sp == "sm":
            args[n] = VNamed("SidedMessage", {"side": VZ(S(v["side"]), "str"), "phase": VZ(S(v["phase"]), "str"),
                                              "body": VZ(S(v["body"]), "str"), "server_rx": VZ(RealVal(v["server_rx"]), "real"),
                                              "msg_id": VZ(term(v["msg_id"], "json"), "json")})
        elif sp in ("str", "real", "bool", "int"):
            args[n] = VZ(term(v, sp), sp)
        elif sp == "optstr":
            args[n] = VOpt(BoolVal(v is None), VZ(S(v or ""), "str"))
        else:
            raise ValueError("argument spec %s" % sp)
    self_ref = IntVal(MBOX if con.cls == "Mailbox" else APP)
    result = None
    if "registry_post" in rec:
        # the registry of the namespace as the real run left it; a key that was not there before is the
        # Mailbox object open_mailbox made
        hp = post.heap
        reg = K(Str, IntVal(0))
        for k in rec["registry_post"]:
            if k in rec.get("registry_pre", []):
                reg = Store(reg, S(k), MBOX)
                continue
            reg = Store(reg, S(k), NEWOBJ)
            post.alloc = Store(pre.alloc, NEWOBJ, True)
            hp["Mailbox._app"] = Store(pre.heap["Mailbox._app"], NEWOBJ, APP)
            hp["Mailbox._app_id"] = Store(pre.heap["Mailbox._app_id"], NEWOBJ, S(rec["app_id"]))
            hp["Mailbox._mailbox_id"] = Store(pre.heap["Mailbox._mailbox_id"], NEWOBJ, S(k))
            hp["Mailbox._listeners"] = Store(pre.heap["Mailbox._listeners"], NEWOBJ, K(INT, BoolVal(False)))
        hp["AppNamespace._mailboxes"] = Store(pre.heap["AppNamespace._mailboxes"], APP, reg)
    if target in ("AppNamespace.claim_nameplate", "AppNamespace.allocate_nameplate"):
        if rec["result"] is not None:
            result = VZ(S(rec["result"]), "str")
    elif target == "AppNamespace.open_mailbox":
        if rec["result"] is not None:
            result = VRef(IntVal(NEWOBJ), "Mailbox")
    elif target == "AppNamespace._get_nameplate_ids":
        mem = K(Str, BoolVal(False))
        for x in rec["result"]:
            mem = Store(mem, S(x), True)
        result = VSet("str", mem)
    elif target == "AppNamespace.prune":
        result = VZ(BoolVal(bool(rec["result"])), "bool")
    c = Ctx(pre, post, args, self_ref, con.cls, result=result)
    c0 = Ctx(pre, pre, args, self_ref, con.cls)
    requires = [(n, t) for n, t in con.eval_requires(c0) if not any(k in n for k in SKIP_PRE)]
    todo = []
    rclauses = con.eval_raises(c)
    if rec["exc"]:
        mine = [r for r in rclauses if r[0] == rec["exc"]]
        if not mine:
            return facts, requires, None
        for (exc, name, when, posts, fields, tags, iff) in mine:
            todo.append(("raises.%s.%s.when" % (exc, name), when))
            todo += [("raises.%s.%s.%s" % (exc, name, pn), t) for pn, t in posts]
    else:
        for it in con.eval_ensures(c):
            todo.append(("ensures." + it[0], it[1]))
        for (exc, name, when, posts, fields, tags, iff) in rclauses:
            if iff:
                todo.append(("raises.%s.%s.not_when" % (exc, name), Not(when)))
    return facts, requires, todo


def describe(rec, clause):
    return {"clause": clause, "args": rec["args"], "app": rec["app_id"], "mailbox_id": rec.get("mailbox_id"), "usage": rec["usage"],
            "blur": rec["blur"], "raised": rec["exc"], "result": rec["result"], "pre": rec["pre"], "post": rec["post"]}


def check_target(target, seed, cases):
    qual = "server." + target
    con = REGISTRY[qual]
    recs = run_native(target, seed, cases)
    out = {"target": target, "cases": len(recs), "clauses_checked": 0, "clauses_true": 0, "undecided": 0, "false": [], "skipped": 0,
           "exceptional_cases": 0, "nontrivial_cases": 0, "precondition_false": 0}
    for rec in recs:
        if rec["pre"]["ch"] != rec["post"]["ch"] or rec["pre"]["us"] != rec["post"]["us"]:
            out["nontrivial_cases"] += 1
        facts, requires, todo = prepare(con, target, rec)
        # a case outside the contract's precondition says nothing about its postcondition
        bad_pre = [n for n, t in requires if holds(t, facts, 5000) is False]
        if bad_pre:
            out["precondition_false"] += 1
            out["precondition_false_names"] = sorted(set(out.get("precondition_false_names", []) + bad_pre))
            continue
        if rec["exc"]:
            out["exceptional_cases"] += 1
        if todo is None:
            out["false"].append(describe(rec, "undeclared exception " + rec["exc"]))
            continue
        for name, t in todo:
            if any(k in name for k in SKIP):
                out["skipped"] += 1
                continue
            out["clauses_checked"] += 1
            r = holds(t, facts)
            if r is True:
                out["clauses_true"] += 1
            elif r is None:
                out["undecided"] += 1
                out.setdefault("undecided_names", {}).setdefault(name, 0)
                out["undecided_names"][name] += 1
            else:
                out["false"].append(describe(rec, name))
    return out


def find_failing(target, clause, seeds=(11, 12), cases=25, budget_s=150):
    """Counterexample search for a failed obligation of `target` (replay on the real code): run the real method
    on reachable states and look for a run on which the contract clause the obligation belongs to is false
    (precondition true).  `clause` is a prefix such as 'ensures.usage_row' or 'raises.CrowdedError'; '' = any.
    -> description of the failing run, or None"""
    con = REGISTRY["server." + target]
    t0 = time.time()
    for seed in seeds:
        recs = run_native(target, seed, cases)
        for rec in recs:
            if time.time() - t0 > budget_s:
                return None
            facts, requires, todo = prepare(con, target, rec)
            if todo is None:
                if any(holds(t, facts, 5000) is False for n, t in requires):
                    continue
                d = describe(rec, "undeclared exception " + rec["exc"])
                d["seed"] = seed
                return d
            mine = [(n, t) for n, t in todo if n.startswith(clause) and not any(k in n for k in SKIP)]
            for name, t in mine:
                if holds(t, facts, 5000) is False:
                    if any(holds(t2, facts, 5000) is False for n2, t2 in requires):
                        break
                    d = describe(rec, name)
                    d["seed"] = seed
                    return d
    return None


TARGETS = ["Mailbox.open", "Mailbox._add_message", "AppNamespace.release_nameplate", "AppNamespace.claim_nameplate",
           "AppNamespace._get_nameplate_ids", "AppNamespace.prune", "Mailbox.close", "AppNamespace.open_mailbox",
           "AppNamespace.allocate_nameplate"]


def canary(seed=1):
    """a deliberately wrong clause must evaluate to false on a real run (vacuity guard of the cross-check)"""
    from .state import tbl_eq
    recs = run_native("Mailbox._add_message", seed, 3)
    rec = recs[0]
    pre = concrete_state(rec["pre"], {"ch": False, "us": False})
    post = concrete_state(rec["post"], rec["post"]["in_tx"], heap_from=pre)
    r = holds(tbl_eq(pre.t("ch.messages"), post.t("ch.messages")), [])
    return r is False


def run_all(seed, cases=30, targets=None):
    out = {"seed": seed, "targets": {}, "clauses_checked": 0, "clauses_true": 0, "false": [], "undecided": 0,
           "canary_rejected": canary(seed)}
    for t in (targets or TARGETS):
        r = check_target(t, seed, cases)
        out["targets"][t] = {k: r[k] for k in ("cases", "clauses_checked", "clauses_true", "undecided", "skipped",
                                               "exceptional_cases", "nontrivial_cases", "precondition_false")}
        out["clauses_checked"] += r["clauses_checked"]
        out["clauses_true"] += r["clauses_true"]
        out["undecided"] += r["undecided"]
        out["false"] += r["false"]
    return out
