"""Native half of the differential cross-check (DESIGN 8.3). Runs under /venv/bin/python with the real
package from $PVC_REPO/src.  Reads a JSON job on stdin:
  {"seed": int, "cases": int, "target": "Mailbox.open" | ...}
For each case: drive the real server through a random protocol history (so the database is a
reachable state), snapshot all tables (with rowids), call the target method on real objects with
random arguments, snapshot again.  Writes a JSON list of cases on stdout."""
import json, os, random, sys, tempfile, shutil, sqlite3
sys.path.insert(0, os.path.join(os.environ.get("PVC_REPO", "/repo"), "src"))
import warnings
warnings.filterwarnings("ignore")
from wormhole_mailbox_server import server as S, server_websocket as W, database as D

CH = ["nameplates", "nameplate_sides", "mailboxes", "mailbox_sides", "messages"]
US = ["nameplates", "mailboxes", "client_versions", "current"]


class Conn(W.WebSocketServer):
    def __init__(self, factory):
        W.WebSocketServer.__init__(self)
        self.factory = factory
        self.frames = []

    def sendMessage(self, payload, isBinary=False):
        self.frames.append(json.loads(payload.decode()))

    def cmd(self, **kw):
        try:
            self.onMessage(json.dumps(kw).encode(), False)
        except Exception:
            pass      # defects of the code under test are not this tool's business


class Fac:
    def __init__(self, server):
        self.server = server
        self.reactor = None


def snap(db, tables):
    out = {}
    for t in tables:
        rows = db.execute("SELECT rowid AS __rowid, * FROM `%s`" % t).fetchall()
        out[t] = rows
    return out


def np_next(db):
    r = db.execute("SELECT seq FROM sqlite_sequence WHERE name='nameplates'").fetchone()
    return (r["seq"] + 1) if r else 1


def history(rng, srv, f, clock):
    """a short random history of client commands"""
    apps = ["A", "B"]
    sides = ["s1", "s2", "s3"]
    names = ["1", "2", "x"]
    boxes = ["m1", "m2"]
    conns = []
    for _ in range(rng.randrange(2, 14)):
        clock[0] += rng.choice([0.0, 1.0, 2.5])
        if not conns or rng.random() < 0.3:
            c = Conn(f)
            c.onOpen()
            c.cmd(type="bind", appid=rng.choice(apps), side=rng.choice(sides))
            conns.append(c)
            continue
        c = rng.choice(conns)
        k = rng.choice(["claim", "open", "add", "release", "close", "allocate", "openclaimed"])
        if k == "claim":
            c.cmd(type="claim", nameplate=rng.choice(names))
        elif k == "open":
            c.cmd(type="open", mailbox=rng.choice(boxes))
        elif k == "openclaimed":
            mids = [fr["mailbox"] for fr in c.frames if fr.get("type") == "claimed"]
            if mids:
                c.cmd(type="open", mailbox=mids[-1])
        elif k == "add":
            c.cmd(type="add", phase=rng.choice(["p", "q"]), body=rng.choice(["00", "ff"]), id=rng.choice([None, "i1", 7]))
        elif k == "release":
            c.cmd(type="release")
        elif k == "close":
            c.cmd(type="close", mood=rng.choice([None, "happy", "lonely", "scary", "errory", "odd"]))
        elif k == "allocate":
            c.cmd(type="allocate")
    return conns


def main():
    job = json.load(sys.stdin)
    rng = random.Random(job["seed"])
    out = []
    d = tempfile.mkdtemp(prefix="pvc-diff-", dir="/var/tmp")
    import time as _time
    try:
        for case in range(job["cases"]):
            usage = rng.random() < 0.6
            blur = rng.choice([None, None, 7, 60])
            cdb = D.create_or_upgrade_channel_db(os.path.join(d, "c%d.sqlite" % case))
            udb = D.create_or_upgrade_usage_db(os.path.join(d, "u%d.sqlite" % case)) if usage else None
            srv = S.make_server(cdb, usage_db=udb, blur_usage=blur, allow_list=rng.random() < 0.5)
            f = Fac(srv)
            clock = [1000.0]
            real_time = _time.time
            W.time.time = lambda: clock[0]
            try:
                history(rng, srv, f, clock)
            finally:
                W.time.time = real_time
            if cdb.in_transaction or (udb is not None and udb.in_transaction):
                cdb.commit()
                if udb is not None:
                    udb.commit()
            target = job["target"]
            a = rng.choice(["A", "B"])
            app = srv.get_app(a)
            side = rng.choice(["s1", "s2", "s3"])
            when = clock[0] + rng.choice([0.0, 3.0])
            mids = [r["id"] for r in cdb.execute("SELECT id FROM mailboxes WHERE app_id=?", (a,)).fetchall()] + ["m1", "fresh"]
            mid = rng.choice(mids)
            if target == "Mailbox.close" and len(mids) > 2:
                mid = rng.choice(mids[:-2])
            name = rng.choice(["1", "2", "x", "new"])
            held = cdb.execute("SELECT n.name AS name, s.side AS side FROM nameplate_sides s JOIN nameplates n ON n.id=s.nameplates_id"
                               " WHERE n.app_id=?", (a,)).fetchall()
            if held and rng.random() < 0.7:
                h = rng.choice(held)
                name = h["name"]
                if rng.random() < 0.7:
                    side = h["side"]
            pre = {"ch": snap(cdb, CH), "us": snap(udb, US) if usage else None, "np_next": np_next(cdb)}
            rec = {"target": target, "usage": usage, "blur": blur, "app_id": a, "pre": pre, "args": {}, "exc": None, "result": None}
            try:
                if target == "Mailbox.open":
                    if not cdb.execute("SELECT * FROM mailboxes WHERE id=?", (mid,)).fetchone():
                        continue
                    mb = S.Mailbox(app, cdb, udb, a, mid)
                    rec["mailbox_id"] = mid
                    rec["args"] = {"side": side, "when": when}
                    mb.open(side, when)
                elif target == "Mailbox._add_message":
                    mb = S.Mailbox(app, cdb, udb, a, mid)
                    rec["mailbox_id"] = mid
                    sm = S.SidedMessage(side=side, phase="ph", body="bd", server_rx=when, msg_id=rng.choice([None, "id9"]))
                    rec["args"] = {"sm": sm._asdict()}
                    mb._add_message(sm)
                elif target == "Mailbox.get_messages":
                    mb = S.Mailbox(app, cdb, udb, a, mid)
                    rec["mailbox_id"] = mid
                    rec["result"] = [m._asdict() for m in mb.get_messages()]
                elif target == "AppNamespace.release_nameplate":
                    rec["args"] = {"name": name, "side": side, "when": when}
                    app.release_nameplate(name, side, when)
                elif target == "AppNamespace.claim_nameplate":
                    rec["args"] = {"name": name, "side": side, "when": when}
                    app2 = S.AppNamespace(cdb, udb, blur, False, a, True)      # fresh namespace: empty registry
                    try:
                        rec["result"] = app2.claim_nameplate(name, side, when)
                    finally:
                        rec["registry_post"] = sorted(app2._mailboxes)
                elif target == "AppNamespace.open_mailbox":
                    rec["args"] = {"mailbox_id": mid, "side": side, "when": when}
                    app2 = S.AppNamespace(cdb, udb, blur, False, a, True)
                    try:
                        app2.open_mailbox(mid, side, when)
                        rec["result"] = "newobj"
                    finally:
                        rec["registry_post"] = sorted(app2._mailboxes)
                elif target == "AppNamespace.allocate_nameplate":
                    rec["args"] = {"side": side, "when": when}
                    app2 = S.AppNamespace(cdb, udb, blur, False, a, True)
                    try:
                        rec["result"] = app2.allocate_nameplate(side, when)
                    finally:
                        rec["registry_post"] = sorted(app2._mailboxes)
                elif target == "Mailbox.close":
                    if not cdb.execute("SELECT * FROM mailboxes WHERE id=? AND app_id=?", (mid, a)).fetchone():
                        continue
                    opened = [r["side"] for r in cdb.execute("SELECT side FROM mailbox_sides WHERE mailbox_id=?", (mid,)).fetchall()]
                    if opened and rng.random() < 0.8:
                        side = rng.choice(opened)
                    mood = rng.choice([None, "happy", "lonely", "scary", "errory", "odd"])
                    app2 = S.AppNamespace(cdb, udb, blur, False, a, True)
                    mb = S.Mailbox(app2, cdb, udb, a, mid)
                    app2._mailboxes[mid] = mb
                    rec["mailbox_id"] = mid
                    rec["registry_pre"] = [mid]
                    rec["args"] = {"side": side, "mood": mood, "when": when}
                    try:
                        mb.close(side, mood, when)
                    finally:
                        rec["registry_post"] = sorted(app2._mailboxes)
                elif target == "AppNamespace._get_nameplate_ids":
                    rec["result"] = sorted(app._get_nameplate_ids())
                elif target == "AppNamespace.prune":
                    old = when - rng.choice([0.5, 2.0, 5.0, 100.0])
                    rec["args"] = {"now": when, "old": old}
                    app2 = S.AppNamespace(cdb, udb, blur, False, a, True)      # no Mailbox objects: nothing is touched
                    rec["result"] = app2.prune(when, old)
                else:
                    raise SystemExit("unknown target " + target)
            except (S.CrowdedError, S.ReclaimedError) as e:
                rec["exc"] = type(e).__name__
            except sqlite3.IntegrityError as e:
                rec["exc"] = "IntegrityError"
            rec["post"] = {"ch": snap(cdb, CH), "us": snap(udb, US) if usage else None, "np_next": np_next(cdb),
                           "in_tx": {"ch": cdb.in_transaction, "us": bool(udb is not None and udb.in_transaction)}}
            out.append(rec)
    finally:
        shutil.rmtree(d, ignore_errors=True)
    json.dump(out, sys.stdout)


main()
